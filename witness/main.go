// witness: runs end-to-end witness documents against the real library (used for known-finding canaries and fix checks).
// usage: witness <witnesses.json> [id...]   prints one line per witness: <id> <outcome>
package main

import (
	"encoding/json"
	"fmt"
	"os"
	"os/exec"
	"path/filepath"
	"strings"

	"github.com/jsightapi/jsight-api-go-library/core"
	"github.com/jsightapi/jsight-api-go-library/directive"
	"github.com/jsightapi/jsight-api-go-library/kit"
)

type Witness struct {
	ID     string            `json:"id"`
	Files  map[string]string `json:"files"`
	Ban    []string          `json:"ban,omitempty"`
	Expect string            `json:"expect"` // substring expected in the outcome
	Note   string            `json:"note,omitempty"`
	Sub    bool              `json:"subprocess,omitempty"`
}

func run(w Witness) (res string) {
	defer func() {
		if r := recover(); r != nil {
			res = fmt.Sprintf("PANIC: %v", r)
		}
	}()
	dir, _ := os.MkdirTemp("", "w")
	defer os.RemoveAll(dir)
	for n, c := range w.Files {
		os.MkdirAll(filepath.Dir(filepath.Join(dir, n)), 0o755)
		os.WriteFile(filepath.Join(dir, n), []byte(c), 0o644)
	}
	var oo []core.Option
	if len(w.Ban) > 0 {
		var ds []directive.Enumeration
		for _, b := range w.Ban {
			d, err := directive.NewDirectiveType(b)
			if err != nil {
				return "BAD-BAN " + b
			}
			ds = append(ds, d)
		}
		oo = append(oo, core.WithBannedDirectives(ds...))
	}
	j, err := kit.NewJapi(filepath.Join(dir, "root.jst"), oo...)
	if err != nil {
		return "NEWERR " + err.Error()
	}
	if je := j.ValidateJAPI(); je != nil {
		msg := strings.ReplaceAll(je.Error(), dir+"/", "")
		return fmt.Sprintf("ERR: %q @%d line %d quote %q", msg, je.Index(), je.Line(), je.Quote())
	}
	b, err := j.ToJson()
	if err != nil {
		return "JSONERR: " + err.Error()
	}
	return "OK " + string(b)
}

func main() {
	data, err := os.ReadFile(os.Args[1])
	if err != nil {
		panic(err)
	}
	var ws []Witness
	if err := json.Unmarshal(data, &ws); err != nil {
		panic(err)
	}
	only := map[string]bool{}
	for _, a := range os.Args[2:] {
		only[a] = true
	}
	if os.Getenv("WITNESS_CHILD") != "" {
		for _, w := range ws {
			if w.ID == os.Getenv("WITNESS_CHILD") {
				fmt.Println(run(w))
			}
		}
		return
	}
	for _, w := range ws {
		if len(only) > 0 && !only[w.ID] {
			continue
		}
		var out string
		if w.Sub {
			cmd := exec.Command(os.Args[0], os.Args[1])
			cmd.Env = append(os.Environ(), "WITNESS_CHILD="+w.ID)
			b, err := cmd.CombinedOutput()
			out = string(b)
			if err != nil {
				out = "CRASH: " + err.Error() + " " + firstLines(out, 3)
			}
		} else {
			out = run(w)
		}
		out = strings.ReplaceAll(strings.TrimSpace(out), "\n", "\\n")
		if len(out) > 400 {
			out = out[:400] + "..."
		}
		status := "UNEXPECTED"
		if strings.Contains(out, w.Expect) {
			status = "AS-EXPECTED"
		}
		fmt.Printf("%s %s %s\n", w.ID, status, out)
	}
}

func firstLines(s string, n int) string {
	ls := strings.Split(s, "\n")
	if len(ls) > n {
		ls = ls[:n]
	}
	return strings.Join(ls, " | ")
}
