package main

// Contract files: //@ lines in /repo/<pkg>/contracts_verif.go (build tag verif, comment only)
// and /verif/contracts/*.spec (same syntax, no //@ prefix needed) for dependencies.

import (
	"fmt"
	"os"
	"path/filepath"
	"regexp"
	"sort"
	"strconv"
	"strings"
)

type Clause struct {
	Kind string // requires ensures invariant decreases modifies
	Tags []string
	Src  string
	E    Expr   // parsed (nil for modifies)
	Mods []Expr // for modifies
	Loop int    // loop ordinal (1-based) for invariant / loop decreases; 0 = function level
	File string
	Line int
}

type FuncSpec struct {
	Key         string
	Kind        string // func functype extern iface
	Params      []string
	Clauses     []*Clause
	Tags        []string
	Inline      bool
	Prefer      string // solver to try first for this function (the others follow in the usual order)
	Trusted     bool
	Pure        bool
	HasMods     bool
	NoFrame     bool
	File        string
	Line        int
	Used        bool
	Opaque      bool
	FreshFields bool
	DeleteSites map[string]deleteSites
	InsertOnly  map[string][]string // local map variable -> tags: stores never overwrite a present key
	RejectOnHit map[string][]string // local map variable -> tags: a comma-ok lookup that finds its key ends in a non-nil (error) return
	Unclaimed   map[string]string   // obligation-name suffix -> reason
	Lets        []*LetSpec
}

// LetSpec: a contract-local specification function determined by the pre-state:
//
//	let anc(k int) *Directive : axiom1 ; axiom2
type deleteSites struct {
	N    int
	Tags []string
}

type LetSpec struct {
	Name   string
	Params []QVar
	Result string
	Axioms []Expr
	Src    string
	Post   bool // letpost: a function of the exit state (usable in ensures only)
}

type PredSpec struct {
	Pkg    string
	Name   string
	Params []QVar
	Body   Expr
	Src    string
}

type TableSpec struct {
	Name    string
	KeyType string
	Entries map[string]string
	Default string
	HasDef  bool
	ResBool bool
	ResStr  bool
}

type SpecFn struct {
	Name   string
	Params []QVar
	Result string
}

type AxiomSpec struct {
	Name string
	E    Expr
	Src  string
}

type LemmaSpec struct {
	Name string
	E    Expr
	Src  string
	Tags []string
	Pkg  string
	Opts map[string]string
}

type GhostField struct {
	Type, Name, GoType string
	Follows            string // real field whose modification implies this ghost field may change
}

type SpecDB struct {
	Funcs      map[string]*FuncSpec
	Preds      map[string]*PredSpec
	Tables     map[string]*TableSpec
	SpecFns    map[string]*SpecFn
	Axioms     []*AxiomSpec
	Lemmas     []*LemmaSpec
	Ghosts     map[string][]GhostField // by type key "pkg.Type"
	Files      []string
	Consts     map[string]string
	GhostVars  map[string]string // name -> type
	GlobalInvs []*AxiomSpec
	Guarded    map[string]string // "pkg.Type.field" -> mutex field
	Access     []*AccessSpec
	Equivs     map[string]*EquivSpec // functype key -> state equivalence for two-run (2-safety) lemmas
}

// EquivSpec: equiv stepFunc(s, c) [C05] : pairs 10/13, 32/9 : s.step, s.stepStack, ...
type EquivSpec struct {
	Type                  string
	Params                []string
	Tags                  []string
	Pairs                 [][2]string
	Exprs                 []Expr
	Srcs                  []string
	ByteField, IndexField string            // the parameter byte is <recv>.<ByteField>[<recv>.<IndexField>] in the pre-state
	Skip                  map[string]string // function key -> reason the lemma is not claimed for it
	Cross                 []*CrossSpec
}

// CrossSpec: equiv like <functype> A B [Cnn] : <condition on the byte> -- for every byte satisfying the condition, A(s, c) and
// B(s, c) started with s.step == B behave alike (A is B reached through another state).
type CrossSpec struct {
	A, B string
	Tags []string
	Cond Expr
	Src  string
}

// AccessSpec: the complete list of functions allowed to read / write a field (frame scan), or to write package-level state.
type AccessSpec struct {
	Kind  string // readers writers globalwriters
	Field string // pkg.Type.field
	Funcs []string
	Tags  []string
	File  string
	Line  int
}

func NewSpecDB() *SpecDB {
	return &SpecDB{Funcs: map[string]*FuncSpec{}, Preds: map[string]*PredSpec{}, Tables: map[string]*TableSpec{},
		SpecFns: map[string]*SpecFn{}, Ghosts: map[string][]GhostField{}, Consts: map[string]string{}, GhostVars: map[string]string{}, Guarded: map[string]string{}, Equivs: map[string]*EquivSpec{}}
}

var clauseKW = map[string]bool{"requires": true, "ensures": true, "ghostensures": true, "modifies": true, "decreases": true, "loop": true,
	"inline": true, "trusted": true, "pure": true, "tag": true, "noframe": true, "opaque": true, "unclaimed": true, "let": true, "letpost": true, "oncallback": true, "insertonly": true, "freshfields": true, "deletesites": true, "prefer": true, "rejectonhit": true}
var topKW = map[string]bool{"func": true, "functype": true, "extern": true, "pred": true, "table": true, "specfn": true,
	"axiom": true, "lemma": true, "ghostfield": true, "iface": true, "const": true, "ghostvar": true, "globalinv": true, "guardedby": true, "readers": true, "writers": true, "callers": true, "globalwriters": true, "mapranges": true, "equiv": true}

type rawLine struct {
	text string
	file string
	line int
}

func (db *SpecDB) LoadFile(path string, pkg string) error {
	data, err := os.ReadFile(path)
	if err != nil {
		return err
	}
	db.Files = append(db.Files, path)
	isGo := strings.HasSuffix(path, ".go")
	var lines []rawLine
	for i, l := range strings.Split(string(data), "\n") {
		t := strings.TrimSpace(l)
		if isGo {
			if !strings.HasPrefix(t, "//@") {
				continue
			}
			t = strings.TrimSpace(t[3:])
		}
		if t == "" || strings.HasPrefix(t, "--") || strings.HasPrefix(t, "#") {
			continue
		}
		// strip trailing comment " -- ..."
		if k := strings.Index(t, " -- "); k >= 0 {
			t = strings.TrimSpace(t[:k])
		}
		lines = append(lines, rawLine{t, path, i + 1})
	}
	// join continuation lines
	var items []rawLine
	for _, l := range lines {
		first := strings.Fields(l.text)[0]
		if clauseKW[first] || topKW[first] {
			items = append(items, l)
		} else {
			if len(items) == 0 {
				return fmt.Errorf("%s:%d: continuation without clause", l.file, l.line)
			}
			items[len(items)-1].text += " " + l.text
		}
	}
	var cur *FuncSpec
	for _, it := range items {
		kw, rest := splitFirst(it.text)
		fail := func(f string, a ...any) error {
			return fmt.Errorf("%s:%d: %s", it.file, it.line, fmt.Sprintf(f, a...))
		}
		switch kw {
		case "func", "functype", "extern", "iface":
			key := rest
			var params []string
			if kw == "functype" || kw == "iface" {
				if i := strings.Index(rest, "("); i >= 0 && !strings.HasPrefix(rest, "(") {
					key = strings.TrimSpace(rest[:i])
					ps := strings.TrimSuffix(strings.TrimSpace(rest[i+1:]), ")")
					for _, p := range strings.Split(ps, ",") {
						if p = strings.TrimSpace(p); p != "" {
							params = append(params, p)
						}
					}
				}
			}
			key = qualifyKey(key, pkg)
			if kw == "functype" {
				key = "functype:" + key
			}
			if kw == "iface" {
				key = "iface:" + key
			}
			if _, dup := db.Funcs[key]; dup {
				return fail("duplicate contract for %s", key)
			}
			cur = &FuncSpec{Key: key, Kind: kw, Params: params, File: it.file, Line: it.line, Unclaimed: map[string]string{}}
			if kw == "extern" {
				cur.Trusted = true
			}
			db.Funcs[key] = cur
		case "requires", "ensures", "decreases", "ghostensures":
			if cur == nil {
				return fail("clause outside func")
			}
			tags, src := splitTags(rest)
			e, err := ParseExpr(src)
			if err != nil {
				return fail("%v", err)
			}
			cur.Clauses = append(cur.Clauses, &Clause{Kind: kw, Tags: tags, Src: src, E: e, File: it.file, Line: it.line})
		case "modifies":
			if cur == nil {
				return fail("clause outside func")
			}
			cur.HasMods = true
			if strings.TrimSpace(rest) == "nothing" {
				continue
			}
			c := &Clause{Kind: kw, Src: rest, File: it.file, Line: it.line}
			for _, part := range splitTopLevel(rest, ',') {
				e, err := ParseExpr(part)
				if err != nil {
					return fail("%v", err)
				}
				c.Mods = append(c.Mods, e)
			}
			cur.Clauses = append(cur.Clauses, c)
		case "loop":
			if cur == nil {
				return fail("clause outside func")
			}
			ns, rest2 := splitFirst(rest)
			n, err := strconv.Atoi(strings.TrimSuffix(ns, ":"))
			if err != nil {
				return fail("loop ordinal: %v", err)
			}
			kind, rest3 := splitFirst(rest2)
			if kind == "frame" {
				c := &Clause{Kind: "loopframe", Src: rest3, Loop: n, File: it.file, Line: it.line}
				for _, part := range splitTopLevel(rest3, ',') {
					if part == "nothing" {
						continue
					}
					e, err := ParseExpr(part)
					if err != nil {
						return fail("%v", err)
					}
					c.Mods = append(c.Mods, e)
				}
				cur.Clauses = append(cur.Clauses, c)
				continue
			}
			if kind != "invariant" && kind != "decreases" {
				return fail("loop clause must be invariant, decreases or frame")
			}
			tags, src := splitTags(rest3)
			e, err := ParseExpr(src)
			if err != nil {
				return fail("%v", err)
			}
			cur.Clauses = append(cur.Clauses, &Clause{Kind: kind, Tags: tags, Src: src, E: e, Loop: n, File: it.file, Line: it.line})
		case "let", "letpost":
			if cur == nil {
				return fail("let outside func")
			}
			i := strings.Index(rest, ":")
			if i < 0 {
				return fail("let syntax: let f(x T) R : axiom ; axiom")
			}
			head := strings.TrimSpace(rest[:i])
			j := strings.LastIndex(head, ")")
			if j < 0 {
				return fail("let syntax")
			}
			name, params, err := parseHead(head[:j+1])
			if err != nil {
				return fail("%v", err)
			}
			ls := &LetSpec{Name: name, Params: params, Result: strings.TrimSpace(head[j+1:]), Src: rest, Post: kw == "letpost"}
			for _, ax := range splitTopLevel(rest[i+1:], ';') {
				e, err := ParseExpr(ax)
				if err != nil {
					return fail("%v", err)
				}
				ls.Axioms = append(ls.Axioms, e)
			}
			cur.Lets = append(cur.Lets, ls)
		case "oncallback":
			// oncallback requires <expr>   |   oncallback keeps <lv>, <lv>
			if cur == nil {
				return fail("oncallback outside func")
			}
			kind, body := splitFirst(rest)
			switch kind {
			case "requires":
				e, err := ParseExpr(body)
				if err != nil {
					return fail("%v", err)
				}
				cur.Clauses = append(cur.Clauses, &Clause{Kind: "cb-requires", Src: body, E: e, File: it.file, Line: it.line})
			case "keeps":
				c := &Clause{Kind: "cb-keeps", Src: body, File: it.file, Line: it.line}
				for _, part := range splitTopLevel(body, ',') {
					e, err := ParseExpr(part)
					if err != nil {
						return fail("%v", err)
					}
					c.Mods = append(c.Mods, e)
				}
				cur.Clauses = append(cur.Clauses, c)
			default:
				return fail("oncallback requires|keeps")
			}
		case "insertonly":
			// insertonly [Cnn] m : every store into the local map m writes a key that is not present yet
			tags, names := splitTags(rest)
			for _, n := range strings.Fields(strings.ReplaceAll(names, ",", " ")) {
				if cur.InsertOnly == nil {
					cur.InsertOnly = map[string][]string{}
				}
				cur.InsertOnly[n] = tags
			}
		case "rejectonhit":
			// rejectonhit [Cnn] m : whenever a comma-ok lookup m[k] finds the key, the function returns an error (its last
			// result is non-nil) before the next loop iteration begins
			tags, names := splitTags(rest)
			for _, n := range strings.Fields(strings.ReplaceAll(names, ",", " ")) {
				if cur.RejectOnHit == nil {
					cur.RejectOnHit = map[string][]string{}
				}
				cur.RejectOnHit[n] = tags
			}
		case "deletesites":
			// deletesites [Cnn] m N : the local map m has exactly N delete(m, k) sites in this function
			tags, body := splitTags(rest)
			f := strings.Fields(body)
			if len(f) != 2 {
				return fail("deletesites <map> <count>")
			}
			n, err := strconv.Atoi(f[1])
			if err != nil {
				return fail("deletesites count: %v", err)
			}
			if cur.DeleteSites == nil {
				cur.DeleteSites = map[string]deleteSites{}
			}
			cur.DeleteSites[f[0]] = deleteSites{N: n, Tags: tags}
		case "freshfields":
			// the callee initialises reference fields of the fresh object it returns (possibly with objects newer than
			// the caller's heap terms): those field heaps are re-based at the call site
			cur.FreshFields = true
		case "inline":
			cur.Inline = true
		case "trusted":
			cur.Trusted = true
		case "opaque":
			cur.Opaque = true
		case "noframe":
			cur.NoFrame = true
		case "prefer":
			if cur == nil {
				return fail("prefer outside a function contract")
			}
			cur.Prefer = strings.TrimSpace(rest)
		case "pure":
			cur.Pure = true
			cur.HasMods = true
		case "unclaimed":
			name, reason := splitFirst(rest)
			cur.Unclaimed[name] = reason
		case "tag":
			if cur != nil {
				cur.Tags = append(cur.Tags, strings.Fields(strings.ReplaceAll(rest, ",", " "))...)
			}
		case "pred":
			// pred Name(x T, y U) = body
			eq := strings.Index(rest, "=")
			for eq >= 0 && eq+1 < len(rest) && (rest[eq+1] == '=' || (eq > 0 && strings.ContainsRune("=!<>", rune(rest[eq-1])))) {
				n := strings.Index(rest[eq+2:], "=")
				if n < 0 {
					eq = -1
					break
				}
				eq = eq + 2 + n
			}
			if eq < 0 {
				return fail("pred needs '='")
			}
			head, body := strings.TrimSpace(rest[:eq]), strings.TrimSpace(rest[eq+1:])
			name, params, err := parseHead(head)
			if err != nil {
				return fail("%v", err)
			}
			e, err := ParseExpr(body)
			if err != nil {
				return fail("%v", err)
			}
			db.Preds[name] = &PredSpec{Pkg: pkg, Name: name, Params: params, Body: e, Src: body}
			cur = nil
		case "specfn":
			// specfn name(a T, b U) R
			i := strings.LastIndex(rest, ")")
			if i < 0 {
				return fail("specfn syntax")
			}
			name, params, err := parseHead(rest[:i+1])
			if err != nil {
				return fail("%v", err)
			}
			db.SpecFns[name] = &SpecFn{Name: name, Params: params, Result: strings.TrimSpace(rest[i+1:])}
			cur = nil
		case "table":
			// table need(stepFunc) int : a=1, b=2, default=0
			i := strings.Index(rest, ":")
			if i < 0 {
				return fail("table syntax")
			}
			head := strings.TrimSpace(rest[:i])
			m := regexp.MustCompile(`^(\w+)\((\w+)\)\s*(\w+)$`).FindStringSubmatch(head)
			if m == nil {
				return fail("table head syntax: %q", head)
			}
			t := db.Tables[m[1]]
			if t == nil {
				t = &TableSpec{Name: m[1], KeyType: m[2], Entries: map[string]string{}, ResBool: m[3] == "bool", ResStr: m[3] == "string"}
				db.Tables[m[1]] = t
			}
			for _, ent := range strings.Split(rest[i+1:], ",") {
				ent = strings.TrimSpace(ent)
				if ent == "" {
					continue
				}
				kv := strings.SplitN(ent, "=", 2)
				if len(kv) != 2 {
					return fail("table entry %q", ent)
				}
				k, v := strings.TrimSpace(kv[0]), strings.TrimSpace(kv[1])
				if k == "default" {
					t.Default, t.HasDef = v, true
				} else {
					t.Entries[k] = v
				}
			}
			cur = nil
		case "axiom":
			name, body := splitColon(rest)
			e, err := ParseExpr(body)
			if err != nil {
				return fail("%v", err)
			}
			db.Axioms = append(db.Axioms, &AxiomSpec{Name: name, E: e, Src: body})
			cur = nil
		case "lemma":
			name, body := splitColon(rest)
			tags, src := splitTags(body)
			e, err := ParseExpr(src)
			if err != nil {
				return fail("%v", err)
			}
			db.Lemmas = append(db.Lemmas, &LemmaSpec{Name: name, E: e, Src: src, Tags: tags, Pkg: pkg})
			cur = nil
		case "const":
			kv := strings.SplitN(rest, "=", 2)
			if len(kv) != 2 {
				return fail("const syntax")
			}
			db.Consts[strings.TrimSpace(kv[0])] = strings.TrimSpace(kv[1])
			cur = nil
		case "readers", "writers", "callers", "globalwriters", "mapranges":
			tags, body := splitTags(rest)
			field, list := "", body
			if kw == "callers" {
				// callers [Cnn] <function> : <the only functions that may call it>
				field, list = splitColon(body)
				field = qualifyKey(strings.TrimSpace(field), pkg)
			} else if kw != "globalwriters" && kw != "mapranges" {
				field, list = splitColon(body)
				if strings.Count(field, ".") == 1 {
					field = pkg + "." + field
				}
			} else {
				list = strings.TrimPrefix(strings.TrimSpace(body), ":")
			}
			as := &AccessSpec{Kind: kw, Field: field, Tags: tags, File: it.file, Line: it.line}
			for _, f := range strings.Split(list, ",") {
				if f = strings.TrimSpace(f); f != "" {
					as.Funcs = append(as.Funcs, qualifyKey(f, pkg))
				}
			}
			db.Access = append(db.Access, as)
			cur = nil
		case "equiv":
			// equiv stepFunc(s, c) [C05] : pairs 10/13, 32/9 : s.step, s.finds
			if strings.HasPrefix(rest, "skip ") {
				// equiv skip stepFunc stateX, stateY : reason
				f := strings.SplitN(strings.TrimPrefix(rest, "skip "), ":", 2)
				hd := strings.Fields(strings.ReplaceAll(f[0], ",", " "))
				if len(f) != 2 || len(hd) < 2 {
					return fail("equiv skip syntax")
				}
				es := db.Equivs[qualifyKey(hd[0], pkg)]
				if es == nil {
					return fail("equiv skip before equiv")
				}
				for _, n := range hd[1:] {
					es.Skip[qualifyKey(n, pkg)] = strings.TrimSpace(f[1])
				}
				cur = nil
				break
			}
			if strings.HasPrefix(rest, "like ") {
				// equiv like stepFunc stateA stateB [C05] : c != 35
				f := strings.SplitN(strings.TrimPrefix(rest, "like "), ":", 2)
				if len(f) != 2 {
					return fail("equiv like syntax")
				}
				head := strings.TrimSpace(f[0])
				tags := []string{}
				if i := strings.Index(head, "["); i >= 0 {
					tags, _ = splitTags(head[i:])
					head = strings.TrimSpace(head[:i])
				}
				hd := strings.Fields(head)
				if len(hd) != 3 {
					return fail("equiv like <functype> <A> <B>")
				}
				es := db.Equivs[qualifyKey(hd[0], pkg)]
				if es == nil {
					return fail("equiv like before equiv")
				}
				ce, err := ParseExpr(f[1])
				if err != nil {
					return fail("%v", err)
				}
				es.Cross = append(es.Cross, &CrossSpec{A: qualifyKey(hd[1], pkg), B: qualifyKey(hd[2], pkg), Tags: tags, Cond: ce, Src: strings.TrimSpace(f[1])})
				cur = nil
				break
			}
			parts := strings.SplitN(rest, ":", 4)
			if len(parts) != 4 {
				return fail("equiv syntax")
			}
			bf := strings.Fields(parts[2])
			if len(bf) != 3 || bf[0] != "byteat" {
				return fail("equiv: expected 'byteat <field> <indexfield>'")
			}
			parts = []string{parts[0], parts[1], parts[3]}
			head := strings.TrimSpace(parts[0])
			tags := []string{}
			if i := strings.Index(head, "["); i >= 0 {
				tags, _ = splitTags(head[i:])
				head = strings.TrimSpace(head[:i])
			}
			name, params, err := parseHead(head)
			if err != nil {
				return fail("%v", err)
			}
			es := &EquivSpec{Type: qualifyKey(name, pkg), Tags: tags, ByteField: bf[1], IndexField: bf[2], Skip: map[string]string{}}
			for _, p := range params {
				es.Params = append(es.Params, p.Name)
			}
			for _, pr := range strings.Split(strings.TrimPrefix(strings.TrimSpace(parts[1]), "pairs"), ",") {
				ab := strings.Split(strings.TrimSpace(pr), "/")
				if len(ab) == 2 {
					es.Pairs = append(es.Pairs, [2]string{strings.TrimSpace(ab[0]), strings.TrimSpace(ab[1])})
				}
			}
			for _, part := range splitTopLevel(parts[2], ',') {
				e, err := ParseExpr(part)
				if err != nil {
					return fail("%v", err)
				}
				es.Exprs = append(es.Exprs, e)
				es.Srcs = append(es.Srcs, part)
			}
			db.Equivs[es.Type] = es
			cur = nil
		case "guardedby":
			// guardedby Tags.data mx
			f := strings.Fields(rest)
			if len(f) != 2 || !strings.Contains(f[0], ".") {
				return fail("guardedby syntax: guardedby Type.field mutexfield")
			}
			tn := f[0]
			if strings.Count(tn, ".") == 1 {
				tn = pkg + "." + tn
			}
			db.Guarded[tn] = f[1]
			cur = nil
		case "globalinv":
			name, body := splitColon(rest)
			e, err := ParseExpr(body)
			if err != nil {
				return fail("%v", err)
			}
			db.GlobalInvs = append(db.GlobalInvs, &AxiomSpec{Name: pkg + "." + name, E: e, Src: body})
			cur = nil
		case "ghostvar":
			f := strings.Fields(rest)
			if len(f) != 2 {
				return fail("ghostvar syntax: ghostvar name type")
			}
			db.GhostVars[f[0]] = f[1]
			cur = nil
		case "ghostfield":
			// ghostfield Scanner.open int
			f := strings.Fields(rest)
			follows := ""
			if len(f) == 4 && f[2] == "follows" {
				follows = f[3]
				f = f[:2]
			}
			if len(f) != 2 || !strings.Contains(f[0], ".") {
				return fail("ghostfield syntax")
			}
			tn := f[0][:strings.LastIndex(f[0], ".")]
			fn := f[0][strings.LastIndex(f[0], ".")+1:]
			if !strings.Contains(tn, ".") {
				tn = pkg + "." + tn
			}
			db.Ghosts[tn] = append(db.Ghosts[tn], GhostField{tn, fn, f[1], follows})
			cur = nil
		default:
			return fail("unknown keyword %q", kw)
		}
	}
	return nil
}

func splitFirst(s string) (string, string) {
	s = strings.TrimSpace(s)
	i := strings.IndexAny(s, " \t")
	if i < 0 {
		return s, ""
	}
	return s[:i], strings.TrimSpace(s[i+1:])
}

func splitColon(s string) (string, string) {
	i := strings.Index(s, ":")
	if i < 0 {
		return "", s
	}
	return strings.TrimSpace(s[:i]), strings.TrimSpace(s[i+1:])
}

func splitTags(s string) ([]string, string) {
	s = strings.TrimSpace(s)
	if strings.HasPrefix(s, "[C") {
		if i := strings.Index(s, "]"); i > 0 {
			return strings.Fields(strings.ReplaceAll(s[1:i], ",", " ")), strings.TrimSpace(s[i+1:])
		}
	}
	return nil, s
}

func splitTopLevel(s string, sep byte) []string {
	var out []string
	depth, start := 0, 0
	for i := 0; i < len(s); i++ {
		switch s[i] {
		case '(', '[':
			depth++
		case ')', ']':
			depth--
		default:
			if s[i] == sep && depth == 0 {
				out = append(out, strings.TrimSpace(s[start:i]))
				start = i + 1
			}
		}
	}
	if t := strings.TrimSpace(s[start:]); t != "" {
		out = append(out, t)
	}
	return out
}

func parseHead(head string) (string, []QVar, error) {
	i := strings.Index(head, "(")
	if i < 0 || !strings.HasSuffix(head, ")") {
		return "", nil, fmt.Errorf("bad head %q", head)
	}
	name := strings.TrimSpace(head[:i])
	var ps []QVar
	for _, p := range strings.Split(head[i+1:len(head)-1], ",") {
		f := strings.Fields(p)
		if len(f) == 0 {
			continue
		}
		if len(f) == 1 {
			ps = append(ps, QVar{f[0], "int"})
		} else {
			ps = append(ps, QVar{f[0], f[1]})
		}
	}
	return name, ps, nil
}

// qualifyKey adds the package name to an unqualified function key.
func qualifyKey(key, pkg string) string {
	key = strings.TrimSpace(key)
	if pkg == "" {
		return key
	}
	if strings.HasPrefix(key, "(") {
		i := strings.Index(key, ")")
		if i < 0 {
			return key
		}
		recv := key[1:i]
		star := ""
		if strings.HasPrefix(recv, "*") {
			star, recv = "*", recv[1:]
		}
		if !strings.Contains(recv, ".") {
			recv = pkg + "." + recv
		}
		return "(" + star + recv + ")" + key[i+1:]
	}
	if !strings.Contains(strings.SplitN(key, "$", 2)[0], ".") && !strings.Contains(key, "/") {
		return pkg + "." + key
	}
	return key
}

func (db *SpecDB) LoadAll(repo, verif string) error {
	gos, _ := filepath.Glob(filepath.Join(repo, "*", "contracts_verif*.go"))
	sort.Strings(gos)
	for _, g := range gos {
		pkg := filepath.Base(filepath.Dir(g))
		if err := db.LoadFile(g, pkg); err != nil {
			return err
		}
	}
	specs, _ := filepath.Glob(filepath.Join(verif, "contracts", "*.spec"))
	sort.Strings(specs)
	for _, s := range specs {
		if err := db.LoadFile(s, ""); err != nil {
			return err
		}
	}
	return nil
}
