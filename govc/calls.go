package main

import (
	"fmt"
	"go/types"
	"strings"

	"golang.org/x/tools/go/ssa"
)

const maxInlineDepth = 6

// callCommon handles a call (or deferred call at RunDefers). res is the SSA value receiving the result (may be nil).
func (vc *FnVC) callCommon(fr *frame, st *state, c *ssa.CallCommon, res ssa.Value, ins ssa.Instruction, dargs []val, dfn *val) val {
	if vc.pair == nil {
		return vc.callCommon0(fr, st, c, res, ins, dargs, dfn)
	}
	if _, isB := c.Value.(*ssa.Builtin); isB {
		return vc.callCommon0(fr, st, c, res, ins, dargs, dfn)
	}
	pre := st.clone()
	vc.lastInlined = false
	r := vc.callCommon0(fr, st, c, res, ins, dargs, dfn)
	if vc.lastInlined {
		vc.lastInlined = false
		return r
	}
	var args []val
	for _, a := range c.Args {
		v := fr.get(vc, a)
		args = append(args, v)
	}
	fnTerm := "0"
	if f := c.StaticCallee(); f != nil {
		fnTerm = vc.fnID(f)
	} else if !c.IsInvoke() {
		fnTerm = fr.get(vc, c.Value).t
	}
	site := fmt.Sprintf("%p", ins) // the same instruction in both runs, whatever the inlining depth (collisions are harmless: the assumption holds for any two calls)
	vc.pairHook(site, fnTerm, args, pre, st, r)
	return r
}

func (vc *FnVC) callCommon0(fr *frame, st *state, c *ssa.CallCommon, res ssa.Value, ins ssa.Instruction, dargs []val, dfn *val) val {
	S := vc.sorts
	_ = S
	var args []val
	if dargs != nil {
		args = dargs
	} else {
		for _, a := range c.Args {
			args = append(args, fr.get(vc, a))
		}
	}
	resType := func() types.Type {
		sig := c.Signature()
		switch sig.Results().Len() {
		case 0:
			return types.NewTuple()
		case 1:
			return sig.Results().At(0).Type()
		}
		return sig.Results()
	}()
	if b, ok := c.Value.(*ssa.Builtin); ok {
		return vc.builtin(fr, st, b, c, args, resType, ins)
	}
	pos := vc.posOf(ins)
	// interface method call
	if c.IsInvoke() {
		recv := fr.get(vc, c.Value)
		if dfn != nil {
			recv = *dfn
		}
		key := "iface:" + typeKey(c.Value.Type()) + "." + c.Method.Name()
		vc.oblige("nil-deref", vc.descOf(c.Value)+"."+c.Method.Name()+"()", st.reach, fmt.Sprintf("(not (= (i.tid %s) 0))", recv.t), vc.safetyTags(fr), pos)
		if sp := vc.eng.db.Funcs[key]; sp != nil {
			sp.Used = true
			all := append([]val{recv}, args...)
			names := append([]string{"self"}, sp.Params...)
			return vc.applyContract(fr, st, sp, key, names, all, nil, resType, pos, nil)
		}
		return vc.defaultCall(fr, st, nil, c, args, resType, key)
	}
	callee := c.StaticCallee()
	var fnv val
	if callee == nil {
		fnv = fr.get(vc, c.Value)
		if dfn != nil {
			fnv = *dfn
		}
		if fnv.fn != nil {
			callee = fnv.fn
		}
	}
	if callee != nil {
		if callee.Synthetic != "" && strings.Contains(callee.Synthetic, "bound method wrapper") {
			// not modelled
		}
		key := vc.eng.keyOf(callee)
		sp, ftParams := vc.eng.specFor(callee)
		if sp != nil {
			sp.Used = true
		}
		var bindings []val
		if mc, ok := c.Value.(*ssa.MakeClosure); ok {
			for _, b := range mc.Bindings {
				bindings = append(bindings, fr.get(vc, b))
			}
		} else if len(fnv.tup) > 0 {
			bindings = fnv.tup
		}
		if len(callee.FreeVars) > 0 && len(bindings) != len(callee.FreeVars) {
			return vc.defaultCall(fr, st, callee, c, args, resType, key)
		}
		inline := sp != nil && sp.Inline
		if vc.pair != nil && vc.pair.forceInline != nil && vc.pair.forceInline[callee] && callee.Blocks != nil {
			inline = true
		}
		if sp == nil && vc.eng.autoInline(callee) {
			inline = true
		}
		if inline && fr.depth < maxInlineDepth && callee.Blocks != nil && !fr.inChain(callee) {
			return vc.inlineCall(fr, st, callee, sp, args, bindings, resType)
		}
		if sp != nil && len(sp.Clauses) > 0 || sp != nil && sp.HasMods {
			var names []string
			for _, p := range callee.Params {
				names = append(names, p.Name())
			}
			selfv := val{t: vc.fnID(callee), typ: callee.Type(), fn: callee}
			return vc.applyContractN(fr, st, sp, key, names, ftParams, args, &selfv, resType, pos, callee)
		}
		return vc.defaultCall(fr, st, callee, c, args, resType, key)
	}
	// dynamic call through a function value: function-type contract
	vc.oblige("nil-deref", vc.descOf(c.Value)+"()", st.reach, fmt.Sprintf("(not (= %s 0))", fnv.t), vc.safetyTags(fr), pos)
	tk := "functype:" + typeKey(c.Value.Type())
	if sp := vc.eng.db.Funcs[tk]; sp != nil {
		sp.Used = true
		return vc.applyContract(fr, st, sp, tk, sp.Params, args, &fnv, resType, pos, nil)
	}
	// callback of a method under contract: its own clauses say what the callback may rely on / must leave alone
	type kept struct {
		lv *lval
		t  string
	}
	var keeps []kept
	if fr.depth == 0 && vc.spec != nil {
		for _, cl := range vc.spec.Clauses {
			switch cl.Kind {
			case "cb-requires":
				t := vc.evalBool(fr, st, vc.old, cl.E, fr.params)
				vc.oblige("callback-requires", cl.Src, st.reach, t, vc.tagsFor(fr, nil), pos)
			case "cb-keeps":
				for _, m := range cl.Mods {
					if sel, ok := m.(*ESel); ok {
						func() {
							defer func() { recover() }()
							cx := vc.newCtx(fr, st, vc.old, fr.params)
							base := cx.eval(sel.X)
							pt := base.typ.Underlying().(*types.Pointer).Elem()
							stt := pt.Underlying().(*types.Struct)
							for i := 0; i < stt.NumFields(); i++ {
								if stt.Field(i).Name() == sel.Name {
									lv := vc.fieldAddr(base, i)
									keeps = append(keeps, kept{lv, vc.loadLV(st, lv)})
								}
							}
						}()
					}
				}
			}
		}
	}
	r := vc.defaultCall(fr, st, nil, c, args, resType, "dynamic:"+typeKey(c.Value.Type()))
	for _, k := range keeps {
		vc.storeLV(st, k.lv, k.t)
	}
	if len(keeps) > 0 {
		vc.assumption("callbacks passed to " + vc.key + " are assumed not to touch the receiver's lock and containers (they would deadlock on the held mutex)")
	}
	return r
}

func (vc *FnVC) freshResult(resType types.Type, prefix string) val {
	S := vc.sorts
	if tup, ok := resType.(*types.Tuple); ok {
		if tup.Len() == 0 {
			return val{typ: resType}
		}
		var rs []val
		for i := 0; i < tup.Len(); i++ {
			t := tup.At(i).Type()
			n := vc.freshConst(prefix, S.SortOf(t))
			vc.assume("true", S.RangeOf(t, n))
			rs = append(rs, val{t: n, typ: t})
		}
		return val{tup: rs, typ: resType}
	}
	n := vc.freshConst(prefix, S.SortOf(resType))
	vc.assume("true", S.RangeOf(resType, n))
	return val{t: n, typ: resType}
}

// havocLV havocs the location designated by a by-reference pointer argument.
func (vc *FnVC) havocLV(st *state, lv *lval) {
	if lv.anon != "" {
		return
	}
	n := vc.freshConst("byref", vc.sorts.SortOf(lv.typ))
	vc.assume("true", vc.sorts.RangeOf(lv.typ, n))
	vc.storeLV(st, lv, n)
}

func (vc *FnVC) defaultCall(fr *frame, st *state, callee *ssa.Function, c *ssa.CallCommon, args []val, resType types.Type, key string) val {
	ms := vc.eng.modSetOfCall(vc, c)
	if ms.all {
		vc.havocAllFor(st, callee)
		vc.note("call to %s: no contract and unknown frame; whole heap havocked", key)
	} else {
		for _, h := range sortedKeys(ms.heaps) {
			vc.havocHeap(st, h)
		}
		if len(ms.heaps) > 0 {
			vc.note("call to %s: no contract; inferred frame havocked (%d heap arrays), result unconstrained", key, len(ms.heaps))
		}
	}
	if callee == nil || callee.Blocks != nil || true {
		for i, a := range args {
			if a.lv != nil && a.t == "" {
				if i < len(c.Args) {
					if _, isP := c.Args[i].Type().Underlying().(*types.Pointer); isP && !ms.pureArgs {
						vc.havocLV(st, a.lv)
					}
				}
			}
		}
	}
	// allocation may have happened
	na := vc.freshConst("alloc", "Int")
	vc.assume("true", fmt.Sprintf("(>= %s %s)", na, st.alloc))
	st.alloc = na
	vc.boundPendingRefs(st.alloc)
	if callee != nil && callee.Blocks == nil || callee != nil && !vc.eng.inRepo(callee) {
		vc.assumption("external function " + key + " assumed to terminate, not to panic, and to modify nothing visible except through pointer arguments")
	}
	return vc.freshResult(resType, "res:"+shortName(key))
}

func shortName(key string) string {
	if i := strings.LastIndex(key, "."); i >= 0 {
		return key[i+1:]
	}
	return key
}

// applyContract: check requires, havoc modifies, assume ensures.
func (vc *FnVC) applyContract(fr *frame, st *state, sp *FuncSpec, key string, names []string, args []val, self *val, resType types.Type, pos string, callee *ssa.Function) val {
	return vc.applyContractN(fr, st, sp, key, names, nil, args, self, resType, pos, callee)
}

func (vc *FnVC) applyContractN(fr *frame, st *state, sp *FuncSpec, key string, names, names2 []string, args []val, self *val, resType types.Type, pos string, callee *ssa.Function) val {
	vars := map[string]val{}
	for _, nn := range [][]string{names2, names} {
		for i, n := range nn {
			if i < len(args) {
				a := args[i]
				if a.lv == nil || a.t != "" {
					a.t = vc.term(fr, st, a)
				}
				vars[n] = a
			}
		}
	}
	if self != nil {
		vars["self"] = *self
	}
	var cfr *frame
	if callee != nil {
		cfr = &frame{fn: callee, names: map[string]*ssa.Alloc{}}
	} else {
		cfr = &frame{fn: fr.fn, names: map[string]*ssa.Alloc{}}
	}
	cfr.spec = sp
	for k, v := range vc.declareLets(cfr, sp, st, vars) {
		vars[k] = v
	}
	tags := vc.safetyTags(fr)
	light := vc.pair != nil && vc.pair.light
	for _, cl := range sp.Clauses {
		if cl.Kind != "requires" || light {
			continue
		}
		tg := tags
		if len(cl.Tags) > 0 {
			tg = cl.Tags
		}
		parts := splitConj(cl.E, vc.eng.db, 0)
		for k, pe := range parts {
			t := vc.evalBool(cfr, st, st, pe, vars)
			desc := shortName(key) + ":" + cl.Src
			if len(parts) > 1 {
				desc = fmt.Sprintf("%s:%s/%d", shortName(key), shorten(cl.Src, 48), k+1)
			}
			vc.oblige("requires", desc, st.reach, t, tg, pos)
		}
	}
	// termination of recursion: callee measure below caller's
	if callee != nil && fr.depth == 0 && vc.eng.sameSCC(vc.fn, callee) {
		vc.recursionMeasure(fr, st, sp, cfr, vars, key, pos)
	} else if !light && vc.sharedMeasure(sp) {
		// caller and callee carry the same function-type measure (static, hinted or dynamic call, also from inlined helpers):
		// the mutual delegation of the functions of one function type terminates
		vc.recursionMeasure(fr, st, sp, cfr, vars, key, pos)
	}
	pre := st.clone()
	// frame
	switch {
	case sp.Pure:
	case sp.HasMods:
		for _, cl := range sp.Clauses {
			if cl.Kind != "modifies" {
				continue
			}
			for _, m := range cl.Mods {
				vc.havocExpr(cfr, st, pre, m, vars)
			}
		}
	default:
		var ms modSet
		if callee != nil {
			ms = vc.eng.modSetOf(vc, callee)
		} else {
			ms = modSet{all: true}
		}
		if ms.all {
			vc.havocAllFor(st, callee)
			vc.note("call to %s: contract has no modifies clause and the frame is unknown; whole heap havocked", key)
		} else {
			for _, h := range sortedKeys(ms.heaps) {
				vc.havocHeap(st, h)
			}
		}
		for _, a := range args {
			if a.lv != nil && a.t == "" {
				vc.havocLV(st, a.lv)
			}
		}
	}
	// ghost variables defined by this contract's ghostensures change with the call, whatever the inferred frame says
	for g, gt := range vc.eng.db.GhostVars {
		for _, cl := range sp.Clauses {
			if cl.Kind == "ghostensures" && strings.Contains(cl.Src, g) {
				h := "G:ghost." + g
				vc.eng.regHeap(h, heapDesc{kind: "raw", raw: ghostSort(gt)})
				if vc.hget(st, h) == vc.hget(pre, h) {
					vc.havocHeap(st, h)
				}
				break
			}
		}
	}
	if !sp.Pure {
		na := vc.freshConst("alloc", "Int")
		vc.assume("true", fmt.Sprintf("(>= %s %s)", na, st.alloc))
		st.alloc = na
	}
	// A callee that returns a fresh object has written that object's fields: the field heaps of the result's struct type
	// that hold references are re-based (same values on every object that existed before the call, free on the new ones,
	// typed against the new allocation counter). Without this a contract such as "fresh(ret) && ret.file == f" with a
	// still fresher f would contradict the typing of the caller's heap term.
	if !sp.Pure && sp.FreshFields {
		vc.rebaseFreshFields(st, pre, resType)
	}
	vc.boundPendingRefs(st.alloc)
	res := vc.freshResult(resType, "res:"+shortName(key))
	if isRefType(resType) {
		vc.assume("true", fmt.Sprintf("(<= %s %s)", res.t, st.alloc))
	}
	vc.bindResults(vars, res, callee)
	for k, v := range vc.declareLetsP(cfr, sp, st, vars, true) {
		vars[k] = v
	}
	for _, cl := range sp.Clauses {
		if cl.Kind != "ensures" && cl.Kind != "ghostensures" || light && len(names2) > 0 {
			// two-run VCs in light mode use only the frame of the callee and its determinism
			continue
		}
		t := vc.evalBool(cfr, st, pre, cl.E, vars)
		vc.assume(st.reach, t)
		if cl.Kind == "ghostensures" {
			vc.assumption("ghost-state definition (not checked against a body): " + shortName(key) + ": " + cl.Src)
		}
	}
	if sp.Trusted {
		vc.assumption("contract of " + key + " is assumed (trusted/external), not verified")
	}
	return res
}

func (vc *FnVC) bindResults(vars map[string]val, res val, callee *ssa.Function) {
	if len(res.tup) > 0 {
		for i, r := range res.tup {
			vars[fmt.Sprintf("ret%d", i)] = r
		}
	} else if res.t != "" {
		vars["ret"] = res
		vars["ret0"] = res
	}
	if callee != nil {
		sig := callee.Signature
		for i := 0; i < sig.Results().Len(); i++ {
			if n := sig.Results().At(i).Name(); n != "" && n != "_" {
				if len(res.tup) > 0 {
					vars[n] = res.tup[i]
				} else {
					vars[n] = res
				}
			}
		}
	}
}

// havocExpr havocs the location denoted by a modifies-expression.
func (vc *FnVC) havocExpr(cfr *frame, st, pre *state, m Expr, vars map[string]val) {
	defer func() {
		if r := recover(); r != nil {
			if ee, ok := r.(evalErr); ok {
				vc.eng.specError("%s: modifies %s: %s", vc.key, m.String(), string(ee))
				return
			}
			panic(r)
		}
	}()
	c := vc.newCtx(cfr, pre, pre, vars)
	switch x := m.(type) {
	case *ESel:
		base := c.eval(x.X)
		pt, ok := base.typ.Underlying().(*types.Pointer)
		if !ok {
			c.fail("modifies %s: base is not a pointer", m.String())
		}
		el := pt.Elem()
		stt := el.Underlying().(*types.Struct)
		for i := 0; i < stt.NumFields(); i++ {
			if stt.Field(i).Name() == x.Name {
				lv := vc.fieldAddr(base, i)
				if _, isMap := lv.typ.Underlying().(*types.Map); isMap && false {
					return
				}
				vc.havocLV(st, lv)
				return
			}
		}
		for _, g := range vc.eng.db.Ghosts[typeKey(el)] {
			if g.Name == x.Name {
				h, srt := vc.ghostHeap(el, g)
				n := vc.freshConst("ghost", srt)
				vc.hset(st, h, fmt.Sprintf("(store %s %s %s)", vc.hget(st, h), base.t, n))
				return
			}
		}
		c.fail("modifies: no field %s", x.Name)
	case *EUnary:
		if x.Op == "*" {
			p := c.eval(x.X)
			vc.havocLV(st, vc.deref(p))
			return
		}
	case *ECall:
		if id, ok := x.Fun.(*EIdent); ok && id.Name == "mapof" && len(x.Args) == 1 {
			// contents of a map object
			mv := c.eval(x.Args[0])
			mt := mv.typ.Underlying().(*types.Map)
			p, vv, l := vc.mapHeaps(mt)
			for _, h := range []string{p, vv, l} {
				srt := vc.hsort(h)
				inner := strings.TrimSuffix(strings.TrimPrefix(srt, "(Array Int "), ")")
				n := vc.freshConst("mapc", inner)
				// a nil map has no contents to modify
				vc.hset(st, h, fmt.Sprintf("(ite (= %s 0) %s (store %s %s %s))", mv.t, vc.hget(st, h), vc.hget(st, h), mv.t, n))
			}
			ln := fmt.Sprintf("(select %s %s)", vc.hget(st, l), mv.t)
			vc.assume("true", fmt.Sprintf("(>= %s 0)", ln))
			return
		}
		if id, ok := x.Fun.(*EIdent); ok && id.Name == "heap" && len(x.Args) == 1 {
			// whole heap array by name, e.g. heap(Directive.Parent)
			name := x.Args[0].String()
			if es, ok := x.Args[0].(*EStr); ok {
				name = es.V
			}
			for _, h := range vc.eng.heapNames() {
				if strings.HasSuffix(h, ":"+name) || strings.HasSuffix(h, "."+name) || strings.HasSuffix(h, "/"+name) {
					vc.havocHeap(st, h)
				}
			}
			return
		}
	case *EIdent:
		if x.Name == "everything" {
			vc.havocAll(st)
			return
		}
		if gt, ok := vc.eng.db.GhostVars[x.Name]; ok {
			h := "G:ghost." + x.Name
			vc.eng.regHeap(h, heapDesc{kind: "raw", raw: ghostSort(gt)})
			vc.havocHeap(st, h)
			return
		}
		// global variable
		if c.pkg != nil {
			if v, ok := c.pkg.Scope().Lookup(x.Name).(*types.Var); ok {
				if g, ok := vc.eng.globalOf(v); ok {
					vc.havocHeap(st, vc.globalHeap(g))
					return
				}
			}
		}
	}
	c.fail("unsupported modifies target %s", m.String())
}

func (vc *FnVC) recursionMeasure(fr *frame, st *state, sp *FuncSpec, cfr *frame, vars map[string]val, key, pos string) {
	// caller's measure at entry vs callee's measure at the call
	var callerDec, calleeDec []*Clause
	if vc.spec != nil {
		for _, c := range vc.spec.Clauses {
			if c.Kind == "decreases" && c.Loop == 0 {
				callerDec = append(callerDec, c)
			}
		}
	}
	for _, c := range sp.Clauses {
		if c.Kind == "decreases" && c.Loop == 0 {
			calleeDec = append(calleeDec, c)
		}
	}
	if len(callerDec) == 0 || len(calleeDec) == 0 {
		vc.note("recursive call %s -> %s without decreases on both: termination of the recursion not proved", vc.key, key)
		return
	}
	cm := vc.evalInt(cfr, st, st, calleeDec[0].E, vars)
	vc.oblige("rec-variant", shortName(key)+":"+calleeDec[0].Src, st.reach, fmt.Sprintf("(and (>= %s 0) (< %s %s))", cm, cm, vc.entryMeasure()), []string{"C01"}, pos)
}

// sharedMeasure: the function under verification and the callee's contract have the same function-level decreases clause
// (the clause of a function-type contract merged into both).
func (vc *FnVC) sharedMeasure(sp *FuncSpec) bool {
	if vc.spec == nil || sp == nil {
		return false
	}
	var a, b *Clause
	for _, c := range vc.spec.Clauses {
		if c.Kind == "decreases" && c.Loop == 0 {
			a = c
			break
		}
	}
	for _, c := range sp.Clauses {
		if c.Kind == "decreases" && c.Loop == 0 {
			b = c
			break
		}
	}
	return a != nil && b != nil && a.Src == b.Src && a.File == b.File && a.Line == b.Line
}

func (vc *FnVC) entryMeasure() string {
	for _, c := range vc.spec.Clauses {
		if c.Kind == "decreases" && c.Loop == 0 {
			return vc.evalInt(vc.top, vc.old, vc.old, c.E, vc.top.params)
		}
	}
	return "0"
}

// inlineCall executes the callee's body in place (transparent function).
func (vc *FnVC) inlineCall(fr *frame, st *state, callee *ssa.Function, sp *FuncSpec, args []val, bindings []val, resType types.Type) val {
	defer func() { vc.lastInlined = true }()
	cfr := newFrame(callee, fr.depth+1, fr.prefix+callee.Name()+"/")
	cfr.spec = sp
	cfr.parent = fr
	for i, p := range callee.Params {
		a := args[i]
		if a.lv == nil || a.t != "" {
			a.t = vc.term(fr, st, a)
		}
		a.typ = p.Type()
		cfr.vals[p] = a
	}
	for i, fv := range callee.FreeVars {
		b := bindings[i]
		b.typ = fv.Type()
		cfr.vals[fv] = b
	}
	entry := st.clone()
	entry.defers = nil
	saveKey := vc.key
	vc.exec(cfr, entry)
	vc.key = saveKey
	if len(cfr.rets) == 0 {
		// callee never returns (panics): rest is unreachable
		st.reach = "false"
		return vc.freshResult(resType, "res:"+callee.Name())
	}
	var es []edge
	for _, r := range cfr.rets {
		es = append(es, edge{cond: r.cond, st: r.st})
	}
	m := vc.mergeEdges(es, callee.Name()+".ret")
	saved := st.defers
	*st = *m
	st.defers = saved
	// results
	n := callee.Signature.Results().Len()
	if n == 0 {
		return val{typ: resType}
	}
	var rs []val
	for i := 0; i < n; i++ {
		t := callee.Signature.Results().At(i).Type()
		var term string
		for k := len(cfr.rets) - 1; k >= 0; k-- {
			rv := cfr.rets[k].res[i].t
			if term == "" {
				term = rv
			} else if rv != term {
				term = fmt.Sprintf("(ite %s %s %s)", cfr.rets[k].cond, rv, term)
			}
		}
		rs = append(rs, val{t: vc.define("ir:"+callee.Name(), vc.sorts.SortOf(t), term), typ: t})
	}
	if n == 1 {
		return rs[0]
	}
	return val{tup: rs, typ: resType}
}

// ---------- builtins ----------

func (vc *FnVC) builtin(fr *frame, st *state, b *ssa.Builtin, c *ssa.CallCommon, args []val, resType types.Type, ins ssa.Instruction) val {
	S := vc.sorts
	switch b.Name() {
	case "len":
		a := args[0]
		switch u := c.Args[0].Type().Underlying().(type) {
		case *types.Slice:
			return val{t: fmt.Sprintf("(s.len %s)", a.t), typ: resType}
		case *types.Basic:
			return val{t: fmt.Sprintf("(str.len %s)", a.t), typ: resType}
		case *types.Map:
			_, _, l := vc.mapHeaps(u)
			r := vc.define("maplen", "Int", fmt.Sprintf("(ite (= %s 0) 0 (select %s %s))", a.t, vc.hget(st, l), a.t))
			vc.assume("true", fmt.Sprintf("(>= %s 0)", r))
			return val{t: r, typ: resType}
		case *types.Array:
			return val{t: fmt.Sprint(u.Len()), typ: resType}
		case *types.Pointer:
			if arr, ok := u.Elem().Underlying().(*types.Array); ok {
				return val{t: fmt.Sprint(arr.Len()), typ: resType}
			}
		}
	case "cap":
		if _, ok := c.Args[0].Type().Underlying().(*types.Slice); ok {
			return val{t: fmt.Sprintf("(s.cap %s)", args[0].t), typ: resType}
		}
	case "append":
		a, bb := args[0], args[1]
		st0 := c.Args[0].Type().Underlying().(*types.Slice)
		es := S.SortOf(st0.Elem())
		if isStringType(c.Args[1].Type()) {
			break
		}
		r := vc.freshConst("append", S.SortOf(resType))
		vc.assume("true", S.RangeOf(resType, r))
		k := vc.newName("k")
		// value semantics: result = a ++ b
		vc.assume("true", fmt.Sprintf("(and (= (s.len %s) (+ (s.len %s) (s.len %s))) (>= (s.cap %s) (s.cap %s)))", r, a.t, bb.t, r, a.t))
		vc.assume("true", fmt.Sprintf("(forall ((%s Int)) (! (=> (and (<= 0 %s) (< %s (s.len %s))) (= (select (s.arr %s) %s) (select (s.arr %s) %s))) :pattern ((select (s.arr %s) %s))))", k, k, k, a.t, r, k, a.t, k, r, k))
		vc.assume("true", fmt.Sprintf("(forall ((%s Int)) (! (=> (and (<= 0 %s) (< %s (s.len %s))) (= (select (s.arr %s) (+ (s.len %s) %s)) (select (s.arr %s) %s))) :pattern ((select (s.arr %s) %s))))", k, k, k, bb.t, r, a.t, k, bb.t, k, bb.t, k))
		vc.assume("true", fmt.Sprintf("(forall ((%s Int)) (! (=> (and (<= (s.len %s) %s) (< %s (s.len %s))) (= (select (s.arr %s) %s) (select (s.arr %s) (- %s (s.len %s))))) :pattern ((select (s.arr %s) %s))))", k, a.t, k, k, r, r, k, bb.t, k, a.t, r, k))
		// single-element appends (the common case) get a direct fact
		vc.assume("true", fmt.Sprintf("(=> (= (s.len %s) 1) (= (select (s.arr %s) (s.len %s)) (select (s.arr %s) 0)))", bb.t, r, a.t, bb.t))
		_ = es
		return val{t: r, typ: resType}
	case "copy":
		dst, src := args[0], args[1]
		if isStringType(c.Args[1].Type()) {
			break
		}
		n := vc.define("copyn", "Int", fmt.Sprintf("(ite (<= (s.len %s) (s.len %s)) (s.len %s) (s.len %s))", dst.t, src.t, dst.t, src.t))
		p := fr.prov[c.Args[0]]
		if p == nil {
			vc.unsupported("copy into a slice of unknown provenance")
			return val{t: n, typ: resType}
		}
		off := "0"
		if o, ok := fr.provOf[c.Args[0]]; ok {
			off = o
		}
		cur := vc.loadLV(st, p)
		nv := vc.freshConst("copied", S.SortOf(p.typ))
		k := vc.newName("k")
		vc.assume("true", fmt.Sprintf("(and (= (s.len %s) (s.len %s)) (= (s.cap %s) (s.cap %s)))", nv, cur, nv, cur))
		// arr'[off0+off+k] = src[k] for k<n, else unchanged
		vc.assume("true", fmt.Sprintf("(forall ((%s Int)) (! (= (select (s.arr %s) %s) (let ((j (- %s %s))) (ite (and (<= 0 j) (< j %s)) (select (s.arr %s) j) (select (s.arr %s) %s)))) :pattern ((select (s.arr %s) %s))))",
			k, nv, k, k, off, n, src.t, cur, k, nv, k))
		vc.storeLV(st, p, nv)
		return val{t: n, typ: resType}
	case "delete":
		m, k := args[0], args[1]
		mt := c.Args[0].Type().Underlying().(*types.Map)
		p, _, l := vc.mapHeaps(mt)
		kt := vc.term(fr, st, k)
		pm := fmt.Sprintf("(select %s %s)", vc.hget(st, p), m.t)
		was := vc.define("had", "Bool", fmt.Sprintf("(and (not (= %s 0)) (select %s %s))", m.t, pm, kt))
		vc.hset(st, l, fmt.Sprintf("(ite %s (store %s %s (- (select %s %s) 1)) %s)", was, vc.hget(st, l), m.t, vc.hget(st, l), m.t, vc.hget(st, l)))
		vc.hset(st, p, fmt.Sprintf("(ite (= %s 0) %s (store %s %s (store %s %s false)))", m.t, vc.hget(st, p), vc.hget(st, p), m.t, pm, kt))
		return val{typ: resType}
	case "ssa:wrapnilchk":
		vc.oblige("nil-deref", vc.descOf(c.Args[0]), st.reach, fmt.Sprintf("(not (= %s 0))", vc.term(fr, st, args[0])), vc.safetyTags(fr), vc.posOf(ins))
		return args[0]
	case "ssa:deferstack":
		return val{t: "0", typ: resType}
	case "recover":
		// outside a panicking context recover() returns nil; panics are proved absent, not modelled
		return val{t: "(mk-iface 0 0)", typ: resType}
	case "print", "println":
		return val{typ: resType}
	case "min", "max":
		if len(args) == 2 && isIntType(resType) {
			op := "<="
			if b.Name() == "max" {
				op = ">="
			}
			return val{t: fmt.Sprintf("(ite (%s %s %s) %s %s)", op, args[0].t, args[1].t, args[0].t, args[1].t), typ: resType}
		}
	}
	vc.note("builtin %s abstracted in %s", b.Name(), fr.fn.Name())
	return vc.freshResult(resType, "bi:"+b.Name())
}

func (fr *frame) inChain(f *ssa.Function) bool {
	for x := fr; x != nil; x = x.parent {
		if x.fn == f {
			return true
		}
	}
	return false
}

func specMentionsFresh(sp *FuncSpec) bool {
	for _, cl := range sp.Clauses {
		if (cl.Kind == "ensures" || cl.Kind == "ghostensures") && strings.Contains(cl.Src, "fresh(") {
			return true
		}
	}
	return false
}

// rebaseFreshFields gives the reference-holding field heaps of the struct(s) a result points to new terms that agree with
// the old ones on all objects allocated before the call.
func (vc *FnVC) rebaseFreshFields(st, pre *state, resType types.Type) {
	var visit func(t types.Type)
	visit = func(t types.Type) {
		switch u := t.(type) {
		case *types.Tuple:
			for i := 0; i < u.Len(); i++ {
				visit(u.At(i).Type())
			}
			return
		}
		pt, ok := t.Underlying().(*types.Pointer)
		if !ok {
			return
		}
		stt, ok := pt.Elem().Underlying().(*types.Struct)
		if !ok || vc.sorts.StructOf(pt.Elem()).opaque || isSyncType(pt.Elem()) {
			return
		}
		for i := 0; i < stt.NumFields(); i++ {
			if !isRefType(stt.Field(i).Type()) {
				continue
			}
			h, _ := vc.fieldHeap(pt.Elem(), i)
			if vc.hget(st, h) != vc.hget(pre, h) {
				continue // already havocked by the contract's modifies clause
			}
			old := vc.hget(st, h)
			vc.havocHeap(st, h)
			vc.assume("true", vc.frameFact(vc.hget(st, h), old, nil, pre.alloc))
		}
	}
	if resType != nil {
		visit(resType)
	}
}
