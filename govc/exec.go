package main

import (
	"fmt"
	"go/token"
	"go/types"
	"sort"
	"strings"

	"golang.org/x/tools/go/ssa"
)

func (vc *FnVC) posOf(ins ssa.Instruction) string {
	p := ins.Pos()
	if !p.IsValid() {
		return ""
	}
	pp := vc.eng.prog.Fset.Position(p)
	return fmt.Sprintf("%s:%d", strings.TrimPrefix(pp.Filename, vc.eng.repo+"/"), pp.Line)
}

func newFrame(fn *ssa.Function, depth int, prefix string) *frame {
	fr := &frame{fn: fn, vals: map[ssa.Value]val{}, prov: map[ssa.Value]*lval{}, provOf: map[ssa.Value]string{},
		in: map[*ssa.BasicBlock][]edge{}, depth: depth, prefix: prefix, names: map[string]*ssa.Alloc{}}
	// named allocs: name, name#2, ...
	cnt := map[string]int{}
	fr.namedVals = map[string]ssa.Value{}
	for _, b := range fn.Blocks {
		var lastLen ssa.Value
		for _, ins := range b.Instrs {
			if c, ok := ins.(*ssa.Call); ok {
				if bi, ok := c.Call.Value.(*ssa.Builtin); ok && bi.Name() == "len" {
					lastLen = c
				}
			}
			if a, ok := ins.(*ssa.Alloc); ok && a.Comment == "rangeindex" && lastLen != nil {
				n := "rangelen"
				if k := cnt["rangeindex"]; k > 0 {
					n = fmt.Sprintf("rangelen#%d", k+1)
				}
				fr.namedVals[n] = lastLen
			}
			if a, ok := ins.(*ssa.Alloc); ok && a.Comment != "" {
				cnt[a.Comment]++
				n := a.Comment
				if cnt[n] > 1 {
					n = fmt.Sprintf("%s#%d", n, cnt[a.Comment])
				}
				fr.names[n] = a
				fr.named = append(fr.named, a)
			}
		}
	}
	return fr
}

// exec symbolically executes fn's body from the entry state; returns the return edges.
func (vc *FnVC) exec(fr *frame, entry *state) {
	fn := fr.fn
	loops, order := findLoops(fn)
	fr.loops = loops
	for _, li := range loops {
		vc.loopModSet(fr, li)
		if fr.spec != nil {
			for _, c := range fr.spec.Clauses {
				if c.Loop == li.ord {
					if c.Kind == "invariant" {
						li.invs = append(li.invs, c)
					} else if c.Kind == "decreases" {
						li.decs = append(li.decs, c)
					} else if c.Kind == "loopframe" {
						li.frames = append(li.frames, c)
					}
				}
			}
		}
	}
	fr.entry = entry
	fr.in[fn.Blocks[0]] = []edge{{cond: entry.reach, st: entry}}
	for _, b := range order {
		st := vc.enterBlock(fr, b)
		if st == nil {
			continue
		}
		for _, ins := range b.Instrs {
			vc.step(fr, st, b, ins)
		}
	}
}

func (vc *FnVC) loopModSet(fr *frame, li *loopInfo) {
	for b := range li.body {
		for _, ins := range b.Instrs {
			switch x := ins.(type) {
			case *ssa.Store:
				al, h, ok := vc.rootOfAddr(x.Addr)
				switch {
				case !ok:
					vc.wholeStructOrAll(x.Addr, li)
				case al != nil:
					li.modRegs[al] = true
				default:
					li.modHeap[h] = true
				}
			case *ssa.MapUpdate:
				if mt, ok := x.Map.Type().Underlying().(*types.Map); ok {
					p, v, l := vc.mapHeaps(mt)
					li.modHeap[p], li.modHeap[v], li.modHeap[l] = true, true, true
				}
			case *ssa.Alloc:
				if !x.Heap {
					li.modRegs[x] = true
				} else {
					li.modHeap["$alloc"] = true
				}
			case ssa.CallInstruction:
				vc.callModSet(x.Common(), li)
			}
		}
	}
}

func (vc *FnVC) wholeStructOrAll(addr ssa.Value, li *loopInfo) {
	if pt, ok := addr.Type().Underlying().(*types.Pointer); ok {
		if stt, ok := pt.Elem().Underlying().(*types.Struct); ok && !vc.sorts.StructOf(pt.Elem()).opaque {
			for i := 0; i < stt.NumFields(); i++ {
				h, _ := vc.fieldHeap(pt.Elem(), i)
				li.modHeap[h] = true
			}
			return
		}
	}
	li.modAll = true
}

// callModSet adds to li the heap names a call may modify.
func (vc *FnVC) callModSet(c *ssa.CallCommon, li *loopInfo) {
	if b, ok := c.Value.(*ssa.Builtin); ok {
		switch b.Name() {
		case "copy":
			if al, h, ok := vc.rootOfSliceVal(c.Args[0]); ok {
				if al != nil {
					li.modRegs[al] = true
				} else {
					li.modHeap[h] = true
				}
			} else {
				li.modAll = true
			}
		case "delete":
			if mt, ok := c.Args[0].Type().Underlying().(*types.Map); ok {
				p, v, l := vc.mapHeaps(mt)
				li.modHeap[p], li.modHeap[v], li.modHeap[l] = true, true, true
			}
		}
		return
	}
	var ms modSet
	if sm, ok := vc.specModSet(c); ok {
		ms = sm
	} else {
		ms = vc.eng.modSetOfCall(vc, c)
	}
	if ms.all {
		li.modAll = true
	}
	for h := range ms.heaps {
		li.modHeap[h] = true
	}
	li.modHeap["$alloc"] = true
	if ms.pureArgs {
		return
	}
	// by-reference pointer arguments that designate registers or fields
	for _, a := range c.Args {
		if _, isP := a.Type().Underlying().(*types.Pointer); !isP {
			continue
		}
		switch a.(type) {
		case *ssa.Alloc, *ssa.FieldAddr, *ssa.IndexAddr:
			al, h, ok := vc.rootOfAddr(a)
			switch {
			case !ok:
				vc.wholeStructOrAll(a, li)
			case al != nil:
				li.modRegs[al] = true
			default:
				li.modHeap[h] = true
			}
		}
	}
}

func (vc *FnVC) rootOfSliceVal(v ssa.Value) (*ssa.Alloc, string, bool) {
	switch x := v.(type) {
	case *ssa.UnOp:
		if x.Op == token.MUL {
			return vc.rootOfAddr(x.X)
		}
	case *ssa.Slice:
		return vc.rootOfSliceVal(x.X)
	}
	return nil, "", false
}

func (vc *FnVC) mergeEdges(es []edge, label string) *state {
	if len(es) == 1 {
		st := es[0].st.clone()
		st.reach = es[0].cond
		return st
	}
	var conds []string
	for _, e := range es {
		conds = append(conds, e.cond)
	}
	st := &state{regs: map[*ssa.Alloc]string{}, heap: map[string]string{}}
	st.reach = vc.freshConst("reach:"+label, "Bool")
	vc.emit("(assert (= %s (or %s)))", st.reach, strings.Join(conds, " "))
	// epoch
	ep := es[len(es)-1].st.ep
	for i := len(es) - 2; i >= 0; i-- {
		if es[i].st.ep != ep {
			vc.epochs++
			ep = &epoch{id: vc.epochs, cond: es[i].cond, a: es[i].st.ep, b: ep}
		}
	}
	st.ep = ep
	// registers
	allocs := map[*ssa.Alloc]bool{}
	for _, e := range es {
		for a := range e.st.regs {
			allocs[a] = true
		}
	}
	for a := range allocs {
		el := a.Type().(*types.Pointer).Elem()
		var t string
		same := true
		for i := len(es) - 1; i >= 0; i-- {
			c, ok := es[i].st.regs[a]
			if !ok {
				c = vc.sorts.ZeroOf(el)
			}
			if t == "" {
				t = c
			} else if c != t {
				same = false
				t = fmt.Sprintf("(ite %s %s %s)", es[i].cond, c, t)
			}
		}
		if same {
			st.regs[a] = t
		} else {
			st.regs[a] = vc.define("m:"+a.Comment+":"+label, vc.sorts.SortOf(el), t+" ")
			if len(t) < 40 {
				st.regs[a] = t
			}
		}
	}
	for a, loc := range es[0].st.lvregs {
		all := true
		for _, e := range es[1:] {
			if e.st.lvregs == nil || e.st.lvregs[a] != loc {
				all = false
			}
		}
		if all {
			if st.lvregs == nil {
				st.lvregs = map[*ssa.Alloc]*lval{}
			}
			st.lvregs[a] = loc
		}
	}
	// heap overrides
	names := map[string]bool{}
	for _, e := range es {
		for n := range e.st.heap {
			names[n] = true
		}
	}
	for _, n := range sortedKeys(names) {
		var t string
		same := true
		for i := len(es) - 1; i >= 0; i-- {
			c := vc.hget(es[i].st, n)
			if t == "" {
				t = c
			} else if c != t {
				same = false
				t = fmt.Sprintf("(ite %s %s %s)", es[i].cond, c, t)
			}
		}
		if same {
			st.heap[n] = t
		} else {
			nm := vc.freshConst("mh:"+n, vc.hsort(n))
			vc.emit("(assert (= %s %s))", nm, t)
			st.heap[n] = nm
		}
	}
	// alloc counter
	{
		var t string
		same := true
		for i := len(es) - 1; i >= 0; i-- {
			c := es[i].st.alloc
			if t == "" {
				t = c
			} else if c != t {
				same = false
				t = fmt.Sprintf("(ite %s %s %s)", es[i].cond, c, t)
			}
		}
		if same {
			st.alloc = t
		} else {
			st.alloc = vc.define("alloc", "Int", t+"                                        ")
		}
	}
	// defers: must agree
	st.defers = append(st.defers, es[0].st.defers...)
	for _, e := range es[1:] {
		if len(e.st.defers) != len(st.defers) {
			vc.unsupported("conditional defer (different deferred-call lists meet at a join)")
			if len(e.st.defers) > len(st.defers) {
				st.defers = append([]deferred{}, e.st.defers...)
			}
		}
	}
	return st
}

func (vc *FnVC) enterBlock(fr *frame, b *ssa.BasicBlock) *state {
	es := fr.in[b]
	if len(es) == 0 {
		return nil
	}
	label := fmt.Sprintf("%s.b%d", fr.fn.Name(), b.Index)
	st := vc.mergeEdges(es, label)
	li := fr.loops[b]
	if li == nil {
		return st
	}
	// loop head: establish invariants on entry
	tagsOf := func(c *Clause) []string { return vc.tagsFor(fr, c) }
	for _, c := range li.invs {
		parts := splitConj(c.E, vc.eng.db, 0)
		for k, pe := range parts {
			t := vc.evalBool(fr, st, vc.old, pe, map[string]val{"iter": {t: "0", typ: tMathInt}})
			desc := fmt.Sprintf("loop%d:%s", li.ord, c.Src)
			if len(parts) > 1 {
				desc = fmt.Sprintf("loop%d:%s/%d", li.ord, shorten(c.Src, 48), k+1)
			}
			vc.oblige("inv-init", desc, st.reach, t, tagsOf(c), fmt.Sprintf("%s:%d", c.File, c.Line))
		}
	}
	// havoc
	hs := st.clone()
	hs.reach = vc.freshConst(fmt.Sprintf("reach:%s.loop%d", fr.fn.Name(), li.ord), "Bool")
	// One direction only: a loop head is reached only after the loop was entered, so whatever was established on the way to
	// the entry edges (facts guarded by the reach flags of the dominating blocks) is available inside and after the loop.
	// The converse (entry ==> head) is NOT assumed: together with the assumed invariant it would make a false invariant
	// refute its own inv-init obligation.
	vc.assume(hs.reach, st.reach)
	if li.modAll {
		vc.havocAll(hs)
		vc.note("loop %d of %s: contains a call with unknown frame; whole heap havocked at the loop head", li.ord, fr.fn.Name())
	} else {
		for _, h := range sortedKeys(li.modHeap) {
			if h == "$alloc" {
				continue
			}
			vc.havocHeap(hs, h)
		}
	}
	if li.modAll || li.modHeap["$alloc"] {
		na := vc.freshConst("alloc", "Int")
		vc.assume("true", fmt.Sprintf("(>= %s %s)", na, st.alloc))
		hs.alloc = na
	}
	vc.boundPendingRefs(hs.alloc)
	var regs []*ssa.Alloc
	for a := range li.modRegs {
		regs = append(regs, a)
	}
	sort.Slice(regs, func(i, j int) bool { return regs[i].Pos() < regs[j].Pos() })
	for _, a := range regs {
		if _, ok := st.regs[a]; !ok {
			continue // allocated inside the loop
		}
		el := a.Type().(*types.Pointer).Elem()
		h := vc.freshConst("lv:"+a.Comment, vc.sorts.SortOf(el))
		vc.assume("true", vc.sorts.RangeOf(el, h))
		hs.regs[a] = h
		if hs.lvregs != nil {
			delete(hs.lvregs, a)
		}
	}
	// loop frame: heap arrays havocked at the head agree with the loop-entry heap except at the listed objects
	li.frameObjs = nil
	li.hasFrame = len(li.frames) > 0 && !li.modAll
	if li.hasFrame {
		li.frameSkip = map[string]bool{}
		for _, c := range li.frames {
			for _, m := range c.Mods {
				// heap(T.f): the whole heap array is outside the loop frame (objects not enumerable)
				if call, ok := m.(*ECall); ok {
					if id, ok := call.Fun.(*EIdent); ok && id.Name == "heap" && len(call.Args) == 1 {
						name := call.Args[0].String()
						for _, h := range vc.eng.heapNames() {
							if strings.HasSuffix(h, ":"+name) || strings.HasSuffix(h, "."+name) || strings.HasSuffix(h, "/"+name) {
								li.frameSkip[h] = true
							}
						}
						continue
					}
				}
				li.frameObjs = append(li.frameObjs, vc.evalInt(fr, st, vc.old, m, nil))
			}
		}
		for _, h := range sortedKeys(li.modHeap) {
			if h == "$alloc" || strings.HasPrefix(h, "G:") || li.frameSkip[h] {
				continue
			}
			vc.assume("true", vc.frameFact(hs.heap[h], vc.hget(st, h), li.frameObjs, st.alloc))
		}
	}
	li.iter = vc.freshConst("iter", "Int")
	vc.assume("true", fmt.Sprintf("(>= %s 0)", li.iter))
	iv := map[string]val{"iter": {t: li.iter, typ: tMathInt}}
	for _, c := range li.invs {
		t := vc.evalBool(fr, hs, vc.old, c.E, iv)
		vc.assume(hs.reach, t)
	}
	li.headSt = hs.clone()
	li.variant = nil
	for _, c := range li.decs {
		v := vc.evalInt(fr, hs, vc.old, c.E, iv)
		li.variant = append(li.variant, vc.define("variant", "Int", v+"                                        "))
	}
	return hs
}

func (vc *FnVC) tagsFor(fr *frame, c *Clause) []string {
	if c != nil && len(c.Tags) > 0 {
		return c.Tags
	}
	if fr.spec != nil && len(fr.spec.Tags) > 0 {
		return fr.spec.Tags
	}
	return vc.curTags
}

func (vc *FnVC) safetyTags(fr *frame) []string {
	tags := []string{"C01"}
	if fr.spec != nil {
		for _, t := range fr.spec.Tags {
			if t != "C01" {
				tags = append(tags, t)
			}
		}
	}
	return tags
}

func (vc *FnVC) addEdge(fr *frame, from, to *ssa.BasicBlock, cond string, st *state) {
	if to.Dominates(from) && fr.loops[to] != nil {
		// back edge
		li := fr.loops[to]
		bst := st.clone()
		bst.reach = cond
		for _, h := range fr.hits {
			tg := h.tags
			if len(tg) == 0 {
				tg = vc.safetyTags(fr)
			}
			vc.oblige("reject-on-hit", h.name+":next-iteration", cond, fmt.Sprintf("(not %s)", h.term), tg, "")
		}
		iv := map[string]val{"iter": {t: fmt.Sprintf("(+ %s 1)", li.iter), typ: tMathInt}}
		for _, c := range li.invs {
			parts := splitConj(c.E, vc.eng.db, 0)
			for k, pe := range parts {
				t := vc.evalBool(fr, bst, vc.old, pe, iv)
				desc := fmt.Sprintf("loop%d:%s", li.ord, c.Src)
				if len(parts) > 1 {
					desc = fmt.Sprintf("loop%d:%s/%d", li.ord, shorten(c.Src, 48), k+1)
				}
				vc.oblige("inv-preserved", desc, cond, t, vc.tagsFor(fr, c), fmt.Sprintf("%s:%d", c.File, c.Line))
			}
		}
		for i, c := range li.decs {
			v := vc.evalInt(fr, bst, vc.old, c.E, iv)
			vc.oblige("variant", fmt.Sprintf("loop%d:%s", li.ord, c.Src), cond, fmt.Sprintf("(and (>= %s 0) (< %s %s))", v, v, li.variant[i]), []string{"C01"}, fmt.Sprintf("%s:%d", c.File, c.Line))
		}
		if len(li.decs) == 0 {
			vc.note("loop %d of %s has no decreases clause: termination not proved", li.ord, fr.fn.Name())
		}
		if li.hasFrame {
			for _, h := range sortedKeys(li.modHeap) {
				if h == "$alloc" || strings.HasPrefix(h, "G:") || li.frameSkip[h] {
					continue
				}
				cur, head := vc.hget(bst, h), li.headSt.heap[h]
				if cur == head {
					continue
				}
				vc.oblige("loop-frame", fmt.Sprintf("loop%d:%s", li.ord, h), cond, vc.frameFact(cur, head, li.frameObjs, li.headSt.alloc), vc.tagsFor(fr, nil), "")
			}
		}
		return
	}
	c := vc.define(fmt.Sprintf("e:%s.%d>%d", fr.fn.Name(), from.Index, to.Index), "Bool", cond)
	fr.in[to] = append(fr.in[to], edge{from: from, cond: c, st: st.clone()})
}

// ---------- instruction semantics ----------

func (vc *FnVC) step(fr *frame, st *state, b *ssa.BasicBlock, ins ssa.Instruction) {
	S := vc.sorts
	switch x := ins.(type) {
	case *ssa.DebugRef:
	case *ssa.Alloc:
		el := x.Type().(*types.Pointer).Elem()
		if !x.Heap {
			st.regs[x] = S.ZeroOf(el)
			fr.vals[x] = val{lv: &lval{alloc: x, rtyp: el, typ: el}, typ: x.Type()}
			return
		}
		r := vc.allocRef(st)
		v := val{t: r, typ: x.Type()}
		fr.vals[x] = v
		vc.storeLV(st, vc.deref(v), S.ZeroOf(el))
	case *ssa.Store:
		a := fr.get(vc, x.Addr)
		v := fr.get(vc, x.Val)
		vc.nilCheck(fr, st, a, "store", x)
		if a.lv != nil && a.lv.opaqueBase != nil {
			vc.havocLV(st, a.lv.opaqueBase)
			return
		}
		if p, ok := fr.prov[x.Addr]; ok && a.lv != nil && a.lv.anon != "" {
			vc.lockCheck(fr, st, p, true, x)
			vc.storeLV(st, p, vc.term(fr, st, v))
			return
		}
		vc.lockCheck(fr, st, vc.deref(a), true, x)
		dlv := vc.deref(a)
		if dlv.alloc != nil && len(dlv.path) == 0 && dlv.anon == "" {
			if v.lv != nil && v.t == "" && v.lv.heap != "$struct" && !(strings.HasPrefix(v.lv.heap, "C:") && len(v.lv.path) == 0) && !(v.lv.alloc != nil && len(v.lv.path) == 0) {
				// p := &x.f / &s[i]: the local pointer variable holds a location
				if st.lvregs == nil {
					st.lvregs = map[*ssa.Alloc]*lval{}
				}
				loc := v.lv
				if p, ok := fr.prov[x.Val]; ok && p != nil && v.lv.anon != "" {
					loc = p // an element address: keep the location (reads see the current element, stores reach it)
				}
				if loc.anon != "" {
					vc.unsupported("address of an element of a slice value of unknown provenance kept in a variable")
				}
				st.lvregs[dlv.alloc] = loc
				pos := vc.freshConst("addr", "Int")
				vc.assume("true", fmt.Sprintf("(> %s 0)", pos))
				st.regs[dlv.alloc] = pos
				return
			}
			if st.lvregs != nil {
				delete(st.lvregs, dlv.alloc)
			}
		}
		vc.storeLV(st, dlv, vc.term(fr, st, v))
		if v.fn != nil && strings.HasPrefix(dlv.heap, "H:") && len(dlv.path) == 0 && dlv.alloc == nil {
			// remember which function constant this heap term holds at this object (resolves s.step(s, c) after s.step = f)
			if vc.fnHints == nil {
				vc.fnHints = map[string]*ssa.Function{}
			}
			vc.fnHints[vc.hget(st, dlv.heap)+"|"+dlv.ref] = v.fn
		}
	case *ssa.UnOp:
		vc.unop(fr, st, x)
	case *ssa.BinOp:
		vc.binop(fr, st, x)
	case *ssa.FieldAddr:
		p := fr.get(vc, x.X)
		vc.nilCheck(fr, st, p, "field:"+fieldName(x.X.Type(), x.Field), x)
		pt := x.X.Type().Underlying().(*types.Pointer).Elem()
		if isSyncType(pt) || vc.sorts.StructOf(pt).opaque {
			ft := x.Type().(*types.Pointer).Elem()
			nlv := &lval{anon: vc.freshConst("opaquefield", S.SortOf(ft)), rtyp: ft, typ: ft}
			vc.assume("true", S.RangeOf(ft, nlv.anon))
			if !isSyncType(pt) {
				nlv.opaqueBase = vc.deref(p)
			}
			fr.vals[x] = val{lv: nlv, typ: x.Type()}
			return
		}
		fr.vals[x] = val{lv: vc.fieldAddr(p, x.Field), typ: x.Type()}
	case *ssa.Field:
		v := fr.get(vc, x.X)
		si := S.StructOf(x.X.Type())
		if si.opaque {
			fr.set(vc, x, vc.freshConst("opaquefield", S.SortOf(x.Type())))
			return
		}
		fr.set(vc, x, fmt.Sprintf("(%s %s)", si.fields[x.Field], v.t))
	case *ssa.IndexAddr:
		vc.indexAddr(fr, st, x)
	case *ssa.Index:
		v := fr.get(vc, x.X)
		i := fr.get(vc, x.Index)
		switch u := x.X.Type().Underlying().(type) {
		case *types.Array:
			vc.oblige("index", vc.descOf(x.X), st.reach, fmt.Sprintf("(and (<= 0 %s) (< %s %d))", i.t, i.t, u.Len()), vc.safetyTags(fr), vc.posOf(x))
			fr.set(vc, x, fmt.Sprintf("(select %s %s)", v.t, i.t))
		case *types.Basic: // string
			vc.oblige("index", vc.descOf(x.X), st.reach, fmt.Sprintf("(and (<= 0 %s) (< %s (str.len %s)))", i.t, i.t, v.t), vc.safetyTags(fr), vc.posOf(x))
			r := fr.set(vc, x, fmt.Sprintf("(str.to_code (str.at %s %s))", v.t, i.t))
			vc.assume(st.reach, fmt.Sprintf("(and (<= 0 %s) (<= %s 255))", r.t, r.t))
			r.strAt = fmt.Sprintf("(str.at %s %s)", v.t, i.t)
			fr.vals[x] = r
		default:
			vc.unsupported("Index on %s", x.X.Type())
		}
	case *ssa.Slice:
		vc.sliceOp(fr, st, x)
	case *ssa.Lookup:
		vc.lookup(fr, st, x)
		if fr.spec != nil && fr.spec.RejectOnHit != nil && x.CommaOk && fr.depth == 0 {
			name := ""
			if u, ok := x.X.(*ssa.UnOp); ok {
				switch a := u.X.(type) {
				case *ssa.Alloc:
					name = a.Comment
				case *ssa.FreeVar:
					name = a.Name()
				}
			}
			if tags, ok := fr.spec.RejectOnHit[name]; ok && name != "" {
				hit := vc.define("hit", "Bool", fmt.Sprintf("(and %s %s)", st.reach, fr.vals[x].tup[1].t))
				fr.hits = append(fr.hits, lookupHit{name: name, term: hit, tags: tags})
			}
		}
	case *ssa.MapUpdate:
		m := fr.get(vc, x.Map)
		k := fr.get(vc, x.Key)
		v := fr.get(vc, x.Value)
		mt := x.Map.Type().Underlying().(*types.Map)
		vc.oblige("nil-map", vc.descOf(x.Map), st.reach, fmt.Sprintf("(not (= %s 0))", m.t), vc.safetyTags(fr), vc.posOf(x))
		if fr.spec != nil && fr.spec.InsertOnly != nil {
			// declared insert-only local map: the key must not be present yet
			name := ""
			if u, ok := x.Map.(*ssa.UnOp); ok {
				switch a := u.X.(type) {
				case *ssa.Alloc:
					name = a.Comment
				case *ssa.FreeVar:
					name = a.Name()
				}
			}
			if tags, ok := fr.spec.InsertOnly[name]; ok && name != "" {
				p, _, _ := vc.mapHeaps(mt)
				present := fmt.Sprintf("(select (select %s %s) %s)", vc.hget(st, p), m.t, vc.term(fr, st, k))
				tg := tags
				if len(tg) == 0 {
					tg = vc.safetyTags(fr)
				}
				vc.oblige("insert-only", name, st.reach, fmt.Sprintf("(not %s)", present), tg, vc.posOf(x))
			}
		}
		vc.mapStore(st, mt, m.t, vc.term(fr, st, k), vc.term(fr, st, v))
	case *ssa.MakeMap:
		mt := x.Type().Underlying().(*types.Map)
		r := vc.allocRef(st)
		p, vv, l := vc.mapHeaps(mt)
		vc.hset(st, p, fmt.Sprintf("(store %s %s ((as const (Array %s Bool)) false))", vc.hget(st, p), r, S.SortOf(mt.Key())))
		vc.hset(st, l, fmt.Sprintf("(store %s %s 0)", vc.hget(st, l), r))
		_ = vv
		fr.vals[x] = val{t: r, typ: x.Type()}
	case *ssa.MakeSlice:
		ln := fr.get(vc, x.Len)
		cp := fr.get(vc, x.Cap)
		et := x.Type().Underlying().(*types.Slice).Elem()
		vc.oblige("makeslice", "len-cap", st.reach, fmt.Sprintf("(and (<= 0 %s) (<= %s %s))", ln.t, ln.t, cp.t), vc.safetyTags(fr), vc.posOf(x))
		fr.set(vc, x, fmt.Sprintf("(mk-slice ((as const (Array Int %s)) %s) %s %s)", S.SortOf(et), S.ZeroOf(et), ln.t, cp.t))
	case *ssa.MakeInterface:
		v := fr.get(vc, x.X)
		fr.set(vc, x, vc.makeIface(fr, st, v, x.X.Type()))
	case *ssa.MakeClosure:
		fn := x.Fn.(*ssa.Function)
		r := vc.allocRef(st)
		vc.assume("true", fmt.Sprintf("(= (clo.fn %s) %s)", r, vc.fnID(fn)))
		vc.eng.needClo = true
		v := val{t: r, typ: x.Type(), fn: fn}
		// bindings: remember captured values Go-side (closures are only modelled when called/inlined in this function)
		for _, bnd := range x.Bindings {
			v.tup = append(v.tup, fr.get(vc, bnd))
		}
		fr.vals[x] = v
	case *ssa.ChangeType:
		v := fr.get(vc, x.X)
		v.typ = x.Type()
		fr.vals[x] = v
	case *ssa.ChangeInterface:
		v := fr.get(vc, x.X)
		v.typ = x.Type()
		fr.vals[x] = v
	case *ssa.Convert:
		vc.convert(fr, st, x)
	case *ssa.TypeAssert:
		vc.typeAssert(fr, st, x)
	case *ssa.Extract:
		t := fr.get(vc, x.Tuple)
		if x.Index < len(t.tup) {
			r := t.tup[x.Index]
			r.typ = x.Type()
			fr.vals[x] = r
		} else {
			vc.unsupported("extract from non-tuple")
			fr.set(vc, x, vc.freshConst("extract", S.SortOf(x.Type())))
		}
	case *ssa.Phi:
		// only acyclic phis (from && / ||) are supported: value = ite over incoming edges
		var t string
		es := fr.in[b]
		for i := len(es) - 1; i >= 0; i-- {
			var pv ssa.Value
			for k, p := range b.Preds {
				if p == es[i].from {
					pv = x.Edges[k]
				}
			}
			if pv == nil {
				vc.unsupported("phi with unknown edge")
				continue
			}
			c := vc.term(fr, st, fr.get(vc, pv))
			if t == "" {
				t = c
			} else {
				t = fmt.Sprintf("(ite %s %s %s)", es[i].cond, c, t)
			}
		}
		if fr.loops[b] != nil {
			vc.unsupported("phi at loop head")
			t = vc.freshConst("phi", S.SortOf(x.Type()))
		}
		fr.set(vc, x, t)
	case *ssa.Range:
		vc.rangeInit(fr, st, x)
	case *ssa.Next:
		vc.rangeNext(fr, st, x)
	case *ssa.If:
		c := fr.get(vc, x.Cond)
		vc.addEdge(fr, b, b.Succs[0], fmt.Sprintf("(and %s %s)", st.reach, c.t), st)
		vc.addEdge(fr, b, b.Succs[1], fmt.Sprintf("(and %s (not %s))", st.reach, c.t), st)
	case *ssa.Jump:
		vc.addEdge(fr, b, b.Succs[0], st.reach, st)
	case *ssa.Return:
		var res []val
		for _, r := range x.Results {
			v := fr.get(vc, r)
			v.t = vc.term(fr, st, v)
			res = append(res, v)
		}
		for _, h := range fr.hits {
			// a declared reject-on-hit map: a lookup that found its key must end in an error return
			if len(res) == 0 {
				break
			}
			last := res[len(res)-1]
			nonnil := fmt.Sprintf("(not (= %s 0))", last.t)
			if _, isI := last.typ.Underlying().(*types.Interface); isI {
				nonnil = fmt.Sprintf("(not (= (i.tid %s) 0))", last.t)
			}
			tg := h.tags
			if len(tg) == 0 {
				tg = vc.safetyTags(fr)
			}
			vc.oblige("reject-on-hit", h.name+":return", st.reach, fmt.Sprintf("(=> %s %s)", h.term, nonnil), tg, vc.posOf(x))
		}
		fr.rets = append(fr.rets, retEdge{cond: st.reach, st: st.clone(), res: res})
	case *ssa.Panic:
		desc := "explicit"
		if c, ok := x.X.(*ssa.MakeInterface); ok {
			if k, ok := c.X.(*ssa.Const); ok && k.Value != nil {
				desc = strings.Trim(k.Value.ExactString(), "\"")
			}
		}
		vc.oblige("panic", desc, st.reach, "false", vc.safetyTags(fr), vc.posOf(x))
	case *ssa.Defer:
		d := deferred{call: x}
		for _, a := range x.Call.Args {
			d.args = append(d.args, fr.get(vc, a))
		}
		if !x.Call.IsInvoke() {
			d.fnv = fr.get(vc, x.Call.Value)
		} else {
			d.fnv = fr.get(vc, x.Call.Value)
		}
		if fr.inLoop(b) {
			vc.unsupported("defer inside a loop")
		}
		st.defers = append(st.defers, d)
	case *ssa.RunDefers:
		ds := st.defers
		st.defers = nil
		for i := len(ds) - 1; i >= 0; i-- {
			vc.callCommon(fr, st, &ds[i].call.Call, nil, ds[i].call, ds[i].args, &ds[i].fnv)
		}
	case *ssa.Call:
		r := vc.callCommon(fr, st, &x.Call, x, x, nil, nil)
		fr.vals[x] = r
	case *ssa.Go, *ssa.Send, *ssa.Select:
		vc.unsupported("concurrency instruction %T", ins)
	case *ssa.MultiConvert, *ssa.SliceToArrayPointer:
		vc.unsupported("instruction %T", ins)
	default:
		vc.unsupported("instruction %T", ins)
		if v, ok := ins.(ssa.Value); ok {
			fr.set(vc, v, vc.freshConst("unk", S.SortOf(v.Type())))
		}
	}
}

func (fr *frame) inLoop(b *ssa.BasicBlock) bool {
	for _, li := range fr.loops {
		if li.body[b] {
			return true
		}
	}
	return false
}

func fieldName(pt types.Type, i int) string {
	if p, ok := pt.Underlying().(*types.Pointer); ok {
		if s, ok := p.Elem().Underlying().(*types.Struct); ok {
			return s.Field(i).Name()
		}
	}
	return fmt.Sprint(i)
}

// term returns an SMT term for a value; pointers known only as locations become refs when possible.
func (vc *FnVC) term(fr *frame, st *state, v val) string {
	if v.lv != nil && v.t == "" {
		lv := v.lv
		if lv.heap == "$struct" || (lv.heap != "" && strings.HasPrefix(lv.heap, "C:") && len(lv.path) == 0) {
			return lv.ref
		}
		if lv.alloc != nil && len(lv.path) == 0 {
			// address of a local that does not escape according to ssa, yet used as a value
			vc.unsupported("address of local %s used as a value", lv.alloc.Comment)
		} else {
			vc.unsupported("address of a field/element used as a first-class value")
		}
		return vc.freshConst("addr", "Int")
	}
	return v.t
}

func (vc *FnVC) allocRef(st *state) string {
	r := vc.define("ref", "Int", fmt.Sprintf("(+ %s 1)", st.alloc)+"                                        ")
	st.alloc = r
	return r
}

// descOf gives a syntactic descriptor of a value for obligation names (access path).
func (vc *FnVC) descOf(v ssa.Value) string {
	switch x := v.(type) {
	case *ssa.Alloc:
		if x.Comment != "" {
			return x.Comment
		}
		return "tmp"
	case *ssa.UnOp:
		if x.Op == token.MUL {
			return vc.descOf(x.X)
		}
	case *ssa.FieldAddr:
		return vc.descOf(x.X) + "." + fieldName(x.X.Type(), x.Field)
	case *ssa.Field:
		return vc.descOf(x.X) + "." + x.X.Type().Underlying().(*types.Struct).Field(x.Field).Name()
	case *ssa.IndexAddr:
		return vc.descOf(x.X) + "[]"
	case *ssa.Parameter:
		return x.Name()
	case *ssa.Global:
		return x.Name()
	case *ssa.Call:
		if f := x.Call.StaticCallee(); f != nil {
			return f.Name() + "()"
		}
		if x.Call.IsInvoke() {
			return x.Call.Method.Name() + "()"
		}
		return "call()"
	case *ssa.Slice:
		return vc.descOf(x.X) + "[:]"
	case *ssa.Extract:
		return vc.descOf(x.Tuple) + fmt.Sprintf("#%d", x.Index)
	case *ssa.Lookup:
		return vc.descOf(x.X) + "[k]"
	case *ssa.TypeAssert:
		return vc.descOf(x.X) + ".(T)"
	case *ssa.Const:
		return "const"
	case *ssa.FreeVar:
		return x.Name()
	case *ssa.ChangeType:
		return vc.descOf(x.X)
	case *ssa.Convert:
		return vc.descOf(x.X)
	case *ssa.MakeInterface:
		return vc.descOf(x.X)
	}
	return "expr"
}

func (vc *FnVC) nilCheck(fr *frame, st *state, p val, what string, ins ssa.Instruction) {
	if p.lv != nil {
		return // address of a local / field: never nil
	}
	var src ssa.Value
	switch x := ins.(type) {
	case *ssa.Store:
		src = x.Addr
	case *ssa.FieldAddr:
		src = x.X
	case *ssa.UnOp:
		src = x.X
	case *ssa.IndexAddr:
		src = x.X
	}
	d := what
	if src != nil {
		d = vc.descOf(src)
	}
	vc.oblige("nil-deref", d, st.reach, fmt.Sprintf("(not (= %s 0))", p.t), vc.safetyTags(fr), vc.posOf(ins))
}

func (vc *FnVC) unop(fr *frame, st *state, x *ssa.UnOp) {
	S := vc.sorts
	v := fr.get(vc, x.X)
	switch x.Op {
	case token.MUL:
		vc.nilCheck(fr, st, v, "load", x)
		lv := vc.deref(v)
		if lv.alloc != nil && len(lv.path) == 0 && st.lvregs != nil {
			if loc, ok := st.lvregs[lv.alloc]; ok {
				fr.vals[x] = val{lv: loc, typ: x.Type()}
				return
			}
		}
		vc.lockCheck(fr, st, lv, false, x)
		t := vc.loadLV(st, lv)
		r := fr.set(vc, x, t)
		if strings.HasPrefix(lv.heap, "H:") && len(lv.path) == 0 && lv.alloc == nil && vc.fnHints != nil {
			if f, ok := vc.fnHints[vc.hget(st, lv.heap)+"|"+lv.ref]; ok {
				r.fn = f
				fr.vals[x] = r
			}
		}
		vc.assume("true", S.RangeOf(x.Type(), r.t))
		if _, ok := x.Type().Underlying().(*types.Slice); ok && lv.anon == "" {
			fr.prov[x] = lv
		}
		if _, ok := x.Type().Underlying().(*types.Array); ok && lv.anon == "" {
			fr.prov[x] = lv
		}
	case token.NOT:
		fr.set(vc, x, fmt.Sprintf("(not %s)", v.t))
	case token.SUB:
		fr.set(vc, x, wrapInt(x.Type(), fmt.Sprintf("(- %s)", v.t)))
	case token.XOR:
		vc.note("bitwise complement abstracted in %s", fr.fn.Name())
		r := fr.set(vc, x, vc.freshConst("xor", S.SortOf(x.Type())))
		vc.assume("true", S.RangeOf(x.Type(), r.t))
	default:
		vc.unsupported("unary %s", x.Op)
		fr.set(vc, x, vc.freshConst("unop", S.SortOf(x.Type())))
	}
}

func isIntType(t types.Type) bool {
	b, ok := t.Underlying().(*types.Basic)
	return ok && b.Info()&types.IsInteger != 0
}
func isStringType(t types.Type) bool {
	b, ok := t.Underlying().(*types.Basic)
	return ok && b.Info()&types.IsString != 0
}

func (vc *FnVC) binop(fr *frame, st *state, x *ssa.BinOp) {
	S := vc.sorts
	a, b := fr.get(vc, x.X), fr.get(vc, x.Y)
	at, bt := vc.term(fr, st, a), vc.term(fr, st, b)
	xt := x.X.Type()
	var t string
	switch x.Op {
	case token.ADD:
		if isStringType(xt) {
			t = fmt.Sprintf("(str.++ %s %s)", at, bt)
		} else if isIntType(xt) {
			t = wrapInt1(x.Type(), fmt.Sprintf("(+ %s %s)", at, bt))
		}
	case token.SUB:
		if isIntType(xt) {
			t = wrapInt1(x.Type(), fmt.Sprintf("(- %s %s)", at, bt))
		}
	case token.MUL:
		if isIntType(xt) {
			t = wrapInt(x.Type(), fmt.Sprintf("(* %s %s)", at, bt))
		}
	case token.QUO:
		if isIntType(xt) {
			vc.oblige("div-zero", vc.descOf(x.Y), st.reach, fmt.Sprintf("(not (= %s 0))", bt), vc.safetyTags(fr), vc.posOf(x))
			// Go truncates toward zero
			t = wrapInt(x.Type(), fmt.Sprintf("(let ((a!0 %s) (b!0 %s)) (ite (>= a!0 0) (div a!0 b!0) (- (div (- a!0) b!0))))", at, bt))
		}
	case token.REM:
		if isIntType(xt) {
			vc.oblige("div-zero", vc.descOf(x.Y), st.reach, fmt.Sprintf("(not (= %s 0))", bt), vc.safetyTags(fr), vc.posOf(x))
			t = fmt.Sprintf("(let ((a!0 %s) (b!0 %s)) (ite (>= a!0 0) (mod a!0 (abs b!0)) (- (mod (- a!0) (abs b!0)))))", at, bt)
		}
	case token.EQL, token.NEQ:
		if cmp, ok := charCompare(a, b); ok {
			t = cmp
		} else {
			t = vc.equal(xt, at, bt)
		}
		if x.Op == token.NEQ {
			t = "(not " + t + ")"
		}
	case token.LSS, token.LEQ, token.GTR, token.GEQ:
		op := map[token.Token]string{token.LSS: "<", token.LEQ: "<=", token.GTR: ">", token.GEQ: ">="}[x.Op]
		if isStringType(xt) {
			sop := map[token.Token]string{token.LSS: "str.<", token.LEQ: "str.<=", token.GTR: "str.<", token.GEQ: "str.<="}[x.Op]
			if x.Op == token.GTR || x.Op == token.GEQ {
				at, bt = bt, at
			}
			t = fmt.Sprintf("(%s %s %s)", sop, at, bt)
		} else {
			t = fmt.Sprintf("(%s %s %s)", op, at, bt)
		}
	}
	if t == "" {
		vc.note("operator %s on %s abstracted in %s", x.Op, typeKey(xt), fr.fn.Name())
		r := fr.set(vc, x, vc.freshConst("binop", S.SortOf(x.Type())))
		vc.assume("true", S.RangeOf(x.Type(), r.t))
		return
	}
	fr.set(vc, x, t)
}

// equal builds Go's == for two terms of type t.
func (vc *FnVC) equal(t types.Type, a, b string) string {
	if _, isI := t.Underlying().(*types.Interface); isI {
		// comparison with the nil interface: decided by the dynamic type alone
		if a == "(mk-iface 0 0)" {
			return fmt.Sprintf("(= (i.tid %s) 0)", b)
		}
		if b == "(mk-iface 0 0)" {
			return fmt.Sprintf("(= (i.tid %s) 0)", a)
		}
	}
	return fmt.Sprintf("(= %s %s)", a, b)
}

func (vc *FnVC) indexAddr(fr *frame, st *state, x *ssa.IndexAddr) {
	i := fr.get(vc, x.Index)
	xv := fr.get(vc, x.X)
	switch u := x.X.Type().Underlying().(type) {
	case *types.Slice:
		vc.oblige("index", vc.descOf(x.X), st.reach, fmt.Sprintf("(and (<= 0 %s) (< %s (s.len %s)))", i.t, i.t, xv.t), vc.safetyTags(fr), vc.posOf(x))
		et := u.Elem()
		if p := fr.prov[x.X]; p != nil {
			idx := i.t
			if off, ok := fr.provOf[x.X]; ok {
				idx = fmt.Sprintf("(+ %s %s)", off, i.t)
			}
			// loads use the slice VALUE at the time it was read; stores go to the location it came from
			fr.vals[x] = val{lv: &lval{anon: fmt.Sprintf("(select (s.arr %s) %s)", xv.t, i.t), rtyp: et, typ: et}, typ: x.Type()}
			fr.prov[x] = p.extend(pathElem{field: -1, idx: idx, typ: et})
			return
		}
		fr.vals[x] = val{lv: &lval{anon: fmt.Sprintf("(select (s.arr %s) %s)", xv.t, i.t), rtyp: et, typ: et}, typ: x.Type()}
	case *types.Pointer: // pointer to array
		arr := u.Elem().Underlying().(*types.Array)
		vc.nilCheck(fr, st, xv, "index", x)
		vc.oblige("index", vc.descOf(x.X), st.reach, fmt.Sprintf("(and (<= 0 %s) (< %s %d))", i.t, i.t, arr.Len()), vc.safetyTags(fr), vc.posOf(x))
		lv := vc.deref(xv)
		fr.vals[x] = val{lv: lv.extend(pathElem{field: -1, idx: i.t, typ: arr.Elem(), isArr: true}), typ: x.Type()}
	default:
		vc.unsupported("IndexAddr on %s", x.X.Type())
		fr.vals[x] = val{lv: &lval{anon: vc.freshConst("elem", vc.sorts.SortOf(x.Type().(*types.Pointer).Elem()))}, typ: x.Type()}
	}
}

func (vc *FnVC) sliceOp(fr *frame, st *state, x *ssa.Slice) {
	S := vc.sorts
	xv := fr.get(vc, x.X)
	var lo, hi, mx string
	if x.Low != nil {
		lo = fr.get(vc, x.Low).t
	} else {
		lo = "0"
	}
	tags := vc.safetyTags(fr)
	switch u := x.X.Type().Underlying().(type) {
	case *types.Slice:
		if x.High != nil {
			hi = fr.get(vc, x.High).t
		} else {
			hi = fmt.Sprintf("(s.len %s)", xv.t)
		}
		if x.Max != nil {
			mx = fr.get(vc, x.Max).t
			vc.oblige("slice", vc.descOf(x.X), st.reach, fmt.Sprintf("(and (<= 0 %s) (<= %s %s) (<= %s %s) (<= %s (s.cap %s)))", lo, lo, hi, hi, mx, mx, xv.t), tags, vc.posOf(x))
		} else {
			mx = fmt.Sprintf("(s.cap %s)", xv.t)
			vc.oblige("slice", vc.descOf(x.X), st.reach, fmt.Sprintf("(and (<= 0 %s) (<= %s %s) (<= %s (s.cap %s)))", lo, lo, hi, hi, xv.t), tags, vc.posOf(x))
		}
		fr.set(vc, x, vc.subSlice(xv.t, S.SortOf(x.Type()), lo, hi, mx))
		if p := fr.prov[x.X]; p != nil {
			fr.prov[x] = p
			off := lo
			if o, ok := fr.provOf[x.X]; ok {
				off = fmt.Sprintf("(+ %s %s)", o, lo)
			}
			fr.provOf[x] = off
		}
		_ = u
	case *types.Basic: // string
		if x.High != nil {
			hi = fr.get(vc, x.High).t
		} else {
			hi = fmt.Sprintf("(str.len %s)", xv.t)
		}
		vc.oblige("slice", vc.descOf(x.X), st.reach, fmt.Sprintf("(and (<= 0 %s) (<= %s %s) (<= %s (str.len %s)))", lo, lo, hi, hi, xv.t), tags, vc.posOf(x))
		fr.set(vc, x, fmt.Sprintf("(str.substr %s %s (- %s %s))", xv.t, lo, hi, lo))
	case *types.Pointer: // pointer to array
		arr := u.Elem().Underlying().(*types.Array)
		if x.High != nil {
			hi = fr.get(vc, x.High).t
		} else {
			hi = fmt.Sprint(arr.Len())
		}
		vc.oblige("slice", vc.descOf(x.X), st.reach, fmt.Sprintf("(and (<= 0 %s) (<= %s %s) (<= %s %d))", lo, lo, hi, hi, arr.Len()), tags, vc.posOf(x))
		a := vc.loadLV(st, vc.deref(xv))
		fr.set(vc, x, vc.subSlice(fmt.Sprintf("(mk-slice %s %d %d)", a, arr.Len(), arr.Len()), S.SortOf(x.Type()), lo, hi, fmt.Sprint(arr.Len())))
	default:
		vc.unsupported("Slice on %s", x.X.Type())
		fr.set(vc, x, vc.freshConst("slice", S.SortOf(x.Type())))
	}
}

func (vc *FnVC) mapStore(st *state, mt *types.Map, m, k, v string) {
	p, vv, l := vc.mapHeaps(mt)
	pm := fmt.Sprintf("(select %s %s)", vc.hget(st, p), m)
	was := vc.define("had", "Bool", fmt.Sprintf("(select %s %s)", pm, k))
	vc.hset(st, l, fmt.Sprintf("(store %s %s (ite %s (select %s %s) (+ (select %s %s) 1)))", vc.hget(st, l), m, was, vc.hget(st, l), m, vc.hget(st, l), m))
	vc.hset(st, p, fmt.Sprintf("(store %s %s (store %s %s true))", vc.hget(st, p), m, pm, k))
	vc.hset(st, vv, fmt.Sprintf("(store %s %s (store (select %s %s) %s %s))", vc.hget(st, vv), m, vc.hget(st, vv), m, k, v))
}

func (vc *FnVC) lookup(fr *frame, st *state, x *ssa.Lookup) {
	S := vc.sorts
	m := fr.get(vc, x.X)
	k := fr.get(vc, x.Index)
	switch u := x.X.Type().Underlying().(type) {
	case *types.Map:
		p, vv, _ := vc.mapHeaps(u)
		kt := vc.term(fr, st, k)
		has := vc.define("has", "Bool", fmt.Sprintf("(and (not (= %s 0)) (select (select %s %s) %s))", m.t, vc.hget(st, p), m.t, kt))
		raw := fmt.Sprintf("(select (select %s %s) %s)", vc.hget(st, vv), m.t, kt)
		v := vc.define("mv", S.SortOf(u.Elem()), fmt.Sprintf("(ite %s %s %s)", has, raw, S.ZeroOf(u.Elem())))
		vc.assume("true", S.RangeOf(u.Elem(), v))
		if x.CommaOk {
			fr.vals[x] = val{tup: []val{{t: v, typ: u.Elem()}, {t: has, typ: types.Typ[types.Bool]}}, typ: x.Type()}
		} else {
			fr.vals[x] = val{t: v, typ: x.Type()}
		}
	case *types.Basic: // string index
		vc.oblige("index", vc.descOf(x.X), st.reach, fmt.Sprintf("(and (<= 0 %s) (< %s (str.len %s)))", k.t, k.t, m.t), vc.safetyTags(fr), vc.posOf(x))
		r := fr.set(vc, x, fmt.Sprintf("(str.to_code (str.at %s %s))", m.t, k.t))
		vc.assume(st.reach, fmt.Sprintf("(and (<= 0 %s) (<= %s 255))", r.t, r.t))
		r.strAt = fmt.Sprintf("(str.at %s %s)", m.t, k.t)
		fr.vals[x] = r
	default:
		vc.unsupported("Lookup on %s", x.X.Type())
	}
}

func (vc *FnVC) makeIface(fr *frame, st *state, v val, t types.Type) string {
	if _, isI := t.Underlying().(*types.Interface); isI {
		return v.t
	}
	tid := vc.typeID(t)
	switch t.Underlying().(type) {
	case *types.Pointer, *types.Map, *types.Signature, *types.Chan:
		return fmt.Sprintf("(mk-iface %s %s)", tid, vc.term(fr, st, v))
	}
	if isIntType(t) {
		return fmt.Sprintf("(mk-iface %s %s)", tid, v.t)
	}
	// boxed value: injective box function per type
	box := vc.eng.boxFn(vc, t)
	return fmt.Sprintf("(mk-iface %s (%s %s))", tid, box, v.t)
}

func (vc *FnVC) convert(fr *frame, st *state, x *ssa.Convert) {
	S := vc.sorts
	v := fr.get(vc, x.X)
	from, to := x.X.Type(), x.Type()
	switch {
	case isIntType(from) && isIntType(to):
		fb := from.Underlying().(*types.Basic)
		tb := to.Underlying().(*types.Basic)
		flo, fhi, _, ok1 := intBounds(fb)
		tlo, thi, _, ok2 := intBounds(tb)
		if ok1 && ok2 && fitsIn(flo, fhi, tlo, thi) {
			fr.set(vc, x, v.t)
		} else {
			fr.set(vc, x, wrapInt(to, v.t))
		}
	case isStringType(from) && isStringType(to):
		fr.set(vc, x, v.t)
	case isStringType(to) && isByteSlice(from):
		vc.eng.needBridge = true
		r := fr.set(vc, x, fmt.Sprintf("(bytes2str %s)", v.t))
		vc.assume("true", fmt.Sprintf("(= (str.len %s) (s.len %s))", r.t, v.t))
	case isByteSlice(to) && isStringType(from):
		vc.eng.needBridge = true
		r := fr.set(vc, x, fmt.Sprintf("(str2bytes %s)", v.t))
		vc.assume("true", fmt.Sprintf("(and (= (s.len %s) (str.len %s)) (>= (s.cap %s) (s.len %s)))", r.t, v.t, r.t, r.t))
	default:
		if S.SortOf(from) == S.SortOf(to) {
			fr.set(vc, x, v.t)
			return
		}
		vc.note("conversion %s -> %s abstracted in %s", typeKey(from), typeKey(to), fr.fn.Name())
		r := fr.set(vc, x, vc.freshConst("conv", S.SortOf(to)))
		vc.assume("true", S.RangeOf(to, r.t))
	}
}

func isByteSlice(t types.Type) bool {
	s, ok := t.Underlying().(*types.Slice)
	if !ok {
		return false
	}
	b, ok := s.Elem().Underlying().(*types.Basic)
	return ok && b.Kind() == types.Uint8
}

func fitsIn(flo, fhi, tlo, thi string) bool {
	// compare as big numbers via string length trick
	return cmpNum(tlo, flo) <= 0 && cmpNum(fhi, thi) <= 0
}

func cmpNum(a, b string) int {
	neg := func(s string) (bool, string) {
		if strings.HasPrefix(s, "(- ") {
			return true, strings.TrimSuffix(s[3:], ")")
		}
		return false, s
	}
	na, sa := neg(a)
	nb, sb := neg(b)
	cmpAbs := func(x, y string) int {
		if len(x) != len(y) {
			if len(x) < len(y) {
				return -1
			}
			return 1
		}
		return strings.Compare(x, y)
	}
	switch {
	case na && !nb:
		return -1
	case !na && nb:
		return 1
	case na && nb:
		return -cmpAbs(sa, sb)
	}
	return cmpAbs(sa, sb)
}

func (vc *FnVC) typeAssert(fr *frame, st *state, x *ssa.TypeAssert) {
	S := vc.sorts
	v := fr.get(vc, x.X)
	at := x.AssertedType
	var ok, res string
	if _, isI := at.Underlying().(*types.Interface); isI {
		// interface-to-interface: succeeds iff dynamic type implements; abstract as "non-nil and implements"
		impl := vc.eng.implementsFn(vc, at)
		ok = fmt.Sprintf("(and (not (= (i.tid %s) 0)) (%s (i.tid %s)))", v.t, impl, v.t)
		res = v.t
	} else {
		ok = fmt.Sprintf("(= (i.tid %s) %s)", v.t, vc.typeID(at))
		switch at.Underlying().(type) {
		case *types.Pointer, *types.Map, *types.Signature, *types.Chan:
			res = fmt.Sprintf("(i.val %s)", v.t)
		default:
			if isIntType(at) {
				res = fmt.Sprintf("(i.val %s)", v.t)
			} else {
				res = fmt.Sprintf("(%s (i.val %s))", vc.eng.unboxFn(vc, at), v.t)
			}
		}
	}
	okN := vc.define("taok", "Bool", ok)
	if x.CommaOk {
		r := vc.define("ta", S.SortOf(at), fmt.Sprintf("(ite %s %s %s)", okN, res, S.ZeroOf(at)))
		vc.assume("true", S.RangeOf(at, r))
		fr.vals[x] = val{tup: []val{{t: r, typ: at}, {t: okN, typ: types.Typ[types.Bool]}}, typ: x.Type()}
		return
	}
	vc.oblige("type-assert", vc.descOf(x.X)+".("+typeKey(at)+")", st.reach, okN, vc.safetyTags(fr), vc.posOf(x))
	r := fr.set(vc, x, res)
	vc.assume("true", S.RangeOf(at, r.t))
}

// ---------- map range: arbitrary order ----------

type rangeState struct {
	mt   *types.Map
	m    string
	seen string // Array K Bool term name (havocked at loop heads as a register-like ghost)
}

func (vc *FnVC) rangeInit(fr *frame, st *state, x *ssa.Range) {
	switch x.X.Type().Underlying().(type) {
	case *types.Map:
		m := fr.get(vc, x.X)
		fr.vals[x] = val{t: m.t, typ: x.X.Type()}
	case *types.Basic:
		vc.unsupported("range over string")
		fr.vals[x] = val{t: "0", typ: x.X.Type()}
	default:
		vc.unsupported("range over %s", x.X.Type())
	}
}

func (vc *FnVC) rangeNext(fr *frame, st *state, x *ssa.Next) {
	S := vc.sorts
	tup := x.Type().(*types.Tuple)
	it := fr.get(vc, x.Iter)
	okv := vc.freshConst("next.ok", "Bool")
	res := []val{{t: okv, typ: types.Typ[types.Bool]}}
	if mt, ok := it.typ.Underlying().(*types.Map); ok && !x.IsString {
		p, vv, _ := vc.mapHeaps(mt)
		k := vc.freshConst("next.k", S.SortOf(mt.Key()))
		vc.assume("true", S.RangeOf(mt.Key(), k))
		// the key is ANY present key: iteration order is unspecified
		vc.assume(okv, fmt.Sprintf("(and (not (= %s 0)) (select (select %s %s) %s))", it.t, vc.hget(st, p), it.t, k))
		v := vc.define("next.v", S.SortOf(mt.Elem()), fmt.Sprintf("(select (select %s %s) %s)", vc.hget(st, vv), it.t, k))
		vc.assume("true", S.RangeOf(mt.Elem(), v))
		res = append(res, val{t: k, typ: tup.At(1).Type()}, val{t: v, typ: tup.At(2).Type()})
		vc.note("map range in %s: keys delivered in arbitrary order, termination of the range assumed (finite map)", fr.fn.Name())
	} else {
		vc.unsupported("range/next over non-map")
		for i := 1; i < tup.Len(); i++ {
			res = append(res, val{t: vc.freshConst("next", S.SortOf(tup.At(i).Type())), typ: tup.At(i).Type()})
		}
	}
	fr.vals[x] = val{tup: res, typ: x.Type()}
}

// specModSet derives the heap arrays a call may modify from the callee's explicit modifies clause (if it has one).
func (vc *FnVC) specModSet(c *ssa.CallCommon) (modSet, bool) {
	var sp *FuncSpec
	var sig *types.Signature
	var names []string
	if c.IsInvoke() {
		sp = vc.eng.db.Funcs["iface:"+typeKey(c.Value.Type())+"."+c.Method.Name()]
		return modSet{}, false && sp != nil
	}
	if callee := c.StaticCallee(); callee != nil {
		var ft []string
		sp, ft = vc.eng.specFor(callee)
		sig = callee.Signature
		for _, p := range callee.Params {
			names = append(names, p.Name())
		}
		if sp != nil && sp.Inline {
			return modSet{}, false
		}
		_ = ft
		if len(ft) > 0 {
			names = ft
		}
	} else if _, isB := c.Value.(*ssa.Builtin); !isB {
		sp = vc.eng.db.Funcs["functype:"+typeKey(c.Value.Type())]
		if sp != nil {
			names = sp.Params
			sig, _ = c.Value.Type().Underlying().(*types.Signature)
		}
	}
	if sp == nil || !sp.HasMods || sig == nil {
		return modSet{}, false
	}
	ms := modSet{heaps: map[string]bool{}, pureArgs: true}
	ptype := func(name string) types.Type {
		params := sig.Params()
		off := 0
		if sig.Recv() != nil {
			if len(names) > 0 && names[0] == name {
				return sig.Recv().Type()
			}
			off = 1
		}
		for i := 0; i < params.Len(); i++ {
			if i+off < len(names) && names[i+off] == name {
				return params.At(i).Type()
			}
		}
		return nil
	}
	for _, cl := range sp.Clauses {
		if cl.Kind != "modifies" {
			continue
		}
		for _, m := range cl.Mods {
			switch x := m.(type) {
			case *ESel:
				id, ok := x.X.(*EIdent)
				if !ok {
					return modSet{all: true}, true
				}
				t := ptype(id.Name)
				if t == nil {
					return modSet{all: true}, true
				}
				pt, ok := t.Underlying().(*types.Pointer)
				if !ok {
					return modSet{all: true}, true
				}
				st, ok := pt.Elem().Underlying().(*types.Struct)
				if !ok {
					return modSet{all: true}, true
				}
				found := false
				for i := 0; i < st.NumFields(); i++ {
					if st.Field(i).Name() == x.Name {
						h, _ := vc.fieldHeap(pt.Elem(), i)
						ms.heaps[h] = true
						found = true
					}
				}
				for _, g := range vc.eng.db.Ghosts[typeKey(pt.Elem())] {
					if g.Name == x.Name {
						h, _ := vc.ghostHeap(pt.Elem(), g)
						ms.heaps[h] = true
						found = true
					}
				}
				if !found {
					return modSet{all: true}, true
				}
			case *EUnary:
				// *p : by-reference argument, handled by the caller through the argument's location
				ms.pureArgs = false
			case *ECall:
				id, _ := x.Fun.(*EIdent)
				switch {
				case id != nil && id.Name == "heap" && len(x.Args) == 1:
					name := x.Args[0].String()
					if es, ok := x.Args[0].(*EStr); ok {
						name = es.V
					}
					for _, h := range vc.eng.heapNames() {
						if strings.HasSuffix(h, ":"+name) || strings.HasSuffix(h, "."+name) || strings.HasSuffix(h, "/"+name) {
							ms.heaps[h] = true
						}
					}
				case id != nil && id.Name == "mapof" && len(x.Args) == 1:
					// mapof(p.f): the contents of the map held in field f of parameter p
					sel, ok := x.Args[0].(*ESel)
					var mt *types.Map
					if pid, isID := x.Args[0].(*EIdent); isID {
						// mapof(m): the contents of a map parameter
						if t := ptype(pid.Name); t != nil {
							mt, _ = t.Underlying().(*types.Map)
						}
					}
					if ok {
						if pid, ok := sel.X.(*EIdent); ok {
							if t := ptype(pid.Name); t != nil {
								if pt, ok := t.Underlying().(*types.Pointer); ok {
									if st, ok := pt.Elem().Underlying().(*types.Struct); ok {
										for i := 0; i < st.NumFields(); i++ {
											if st.Field(i).Name() == sel.Name {
												mt, _ = st.Field(i).Type().Underlying().(*types.Map)
											}
										}
									}
								}
							}
						}
					}
					if mt == nil {
						return modSet{all: true}, true
					}
					p, v, l := vc.mapHeaps(mt)
					ms.heaps[p], ms.heaps[v], ms.heaps[l] = true, true, true
				default:
					return modSet{all: true}, true
				}
			case *EIdent:
				if gt, ok := vc.eng.db.GhostVars[x.Name]; ok {
					h := "G:ghost." + x.Name
					vc.eng.regHeap(h, heapDesc{kind: "raw", raw: ghostSort(gt)})
					ms.heaps[h] = true
				} else {
					return modSet{all: true}, true
				}
			default:
				return modSet{all: true}, true
			}
		}
	}
	return ms, true
}

// frameFact: array a agrees with array b everywhere except at the given objects (and at refs allocated after `alloc`).
func (vc *FnVC) frameFact(a, b string, objs []string, alloc string) string {
	r := vc.newName("r")
	var ex []string
	for _, o := range objs {
		ex = append(ex, fmt.Sprintf("(not (= %s %s))", r, o))
	}
	ex = append(ex, fmt.Sprintf("(<= %s %s)", r, alloc))
	return fmt.Sprintf("(forall ((%s Int)) (! (=> (and %s) (= (select %s %s) (select %s %s))) :pattern ((select %s %s))))", r, strings.Join(ex, " "), a, r, b, r, a, r)
}

// lockCheck: an access to a field declared "guardedby" needs the guarding mutex held (write-held for stores),
// unless the object was allocated by this very function (not yet shared).
func (vc *FnVC) lockCheck(fr *frame, st *state, lv *lval, write bool, ins ssa.Instruction) {
	if lv == nil || !strings.HasPrefix(lv.heap, "H:") || len(vc.eng.db.Guarded) == 0 {
		return
	}
	key := strings.TrimPrefix(lv.heap, "H:")
	mf, ok := vc.eng.db.Guarded[key]
	if !ok {
		return
	}
	i := strings.LastIndex(key, ".")
	mh := "H:" + key[:i] + "." + mf
	vc.eng.regHeap(mh, heapDesc{kind: "raw", raw: "(Array Int Int)"})
	held := fmt.Sprintf("(select %s %s)", vc.hget(st, mh), lv.ref)
	cond := fmt.Sprintf("(not (= %s 0))", held)
	what := "read"
	if write {
		cond = fmt.Sprintf("(= %s 2)", held)
		what = "write"
	}
	entryAlloc := "alloc0"
	if vc.old != nil {
		entryAlloc = vc.old.alloc
	}
	vc.oblige("lock-held", what+":"+key, st.reach, fmt.Sprintf("(or (> %s %s) %s)", lv.ref, entryAlloc, cond), []string{"C16"}, vc.posOf(ins))
}
