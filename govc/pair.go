package main

// Two-run (2-safety) lemmas for function-type contracts (C05): for every function f of the type and every declared byte
// pair (a, b): started in EQUIVALENT states, f(s, a) and f(s', b) end in equivalent states (and agree on error / no error).
// The VC runs the function twice (on two distinct receiver objects sA, sB of one heap). Calls that are not inlined are
// abstracted RELATIONALLY: the same call instruction reached in both runs with the same callee, related arguments and
// equivalent pre-states is assumed to produce equivalent post-states and related results - which is the lemma itself for
// the callee (each callee is checked separately; the argument is an induction on call depth, valid for terminating calls).

import (
	"fmt"
	"go/types"
	"sort"
	"strings"

	"golang.org/x/tools/go/ssa"
)

type pairCall struct {
	reach string
	fn    string
	args  []val
	pre   *state
	post  *state
	res   val
}

type pairCtx struct {
	mode        string // "A" or "B"
	es          *EquivSpec
	s           val
	cA, cB      string
	calls       map[string]*pairCall
	pname       string // receiver parameter name in the equiv expressions
	forceInline map[*ssa.Function]bool
	cross       *CrossSpec
	fnB         *ssa.Function
	light       bool // use only frames and determinism of callees (no requires/ensures), and only the byte-dependent preconditions
}

func (vc *FnVC) equivTerms(st *state, pc *pairCtx) []val {
	vars := map[string]val{pc.pname: pc.s}
	var out []val
	for _, e := range pc.es.Exprs {
		c := vc.newCtx(vc.top, st, st, vars)
		out = append(out, c.eval(e))
	}
	return out
}

// eqVals builds the equality of two values of the same type (sequence equality for slices).
func (vc *FnVC) eqVals(a, b val) string {
	if a.t == b.t {
		return "true"
	}
	if strings.HasPrefix(vc.sortOfVal(a), "(Slice ") {
		k := vc.newName("k")
		return fmt.Sprintf("(and (= (s.len %s) (s.len %s)) (forall ((%s Int)) (=> (and (<= 0 %s) (< %s (s.len %s))) (= (select (s.arr %s) %s) (select (s.arr %s) %s)))))",
			a.t, b.t, k, k, k, a.t, a.t, k, b.t, k)
	}
	return fmt.Sprintf("(= %s %s)", a.t, b.t)
}

func (vc *FnVC) equivStates(stA *state, stB *state, pc *pairCtx) string {
	ta := vc.equivTerms(stA, pc)
	tb := vc.equivTerms(stB, pc)
	var parts []string
	for i := range ta {
		parts = append(parts, vc.eqVals(ta[i], tb[i]))
	}
	return "(and " + strings.Join(parts, " ") + ")"
}

func resRelated(a, b val) string {
	if len(a.tup) > 0 && len(a.tup) == len(b.tup) {
		var ps []string
		for i := range a.tup {
			ps = append(ps, resRelated(a.tup[i], b.tup[i]))
		}
		return "(and " + strings.Join(ps, " ") + ")"
	}
	if a.t == "" || b.t == "" || a.typ == nil {
		return "true"
	}
	switch u := a.typ.Underlying().(type) {
	case *types.Pointer:
		return fmt.Sprintf("(= (= %s 0) (= %s 0))", a.t, b.t)
	case *types.Basic:
		if u.Info()&(types.IsInteger|types.IsBoolean) != 0 {
			return fmt.Sprintf("(= %s %s)", a.t, b.t)
		}
	case *types.Signature:
		return fmt.Sprintf("(= %s %s)", a.t, b.t)
	}
	return "true"
}

// pairHook is called after every call that was not inlined.
func (vc *FnVC) pairHook(site string, fnTerm string, args []val, pre, post *state, res val) {
	pc := vc.pair
	if pc.mode == "A" {
		pc.calls[site] = &pairCall{reach: pre.reach, fn: fnTerm, args: args, pre: pre, post: post.clone(), res: res}
		return
	}
	a := pc.calls[site]
	if a == nil {
		return
	}
	conds := []string{a.reach, pre.reach, fmt.Sprintf("(= %s %s)", a.fn, fnTerm)}
	for i := range args {
		if i >= len(a.args) {
			break
		}
		x, y := a.args[i], args[i]
		if x.t == "" || y.t == "" || x.typ == nil {
			continue
		}
		if isIntType(x.typ) {
			conds = append(conds, fmt.Sprintf("(or (= %s %s) (and (= %s %s) (= %s %s)))", x.t, y.t, x.t, pc.cA, y.t, pc.cB))
		} else if vc.sortOfVal(x) == vc.sortOfVal(y) {
			conds = append(conds, fmt.Sprintf("(= %s %s)", x.t, y.t))
		}
	}
	conds = append(conds, vc.equivStates(a.pre, pre, pc))
	concl := fmt.Sprintf("(and %s %s)", vc.equivStates(a.post, post, pc), resRelated(a.res, res))
	vc.emit("(assert (=> (and %s) %s))", strings.Join(conds, " "), concl)
}

// BuildPairVC builds the two-run VC of fn for the byte pair (cA, cB): both runs start in the same state except that the
// byte under the cursor (which the preconditions tie to the parameter) is cA in run A and cB in run B.
func (e *Engine) BuildPairVC(fn *ssa.Function, es *EquivSpec, cA, cB string, light bool) (vc *FnVC) {
	vc = e.newVC(fn)
	vc.key = e.keyOf(fn) + "~" + cA + "/" + cB
	if !light {
		vc.key += "~full"
	}
	defer func() {
		if r := recover(); r != nil {
			if ee, ok := r.(evalErr); ok {
				e.specError("%s: %s", vc.key, string(ee))
				vc.unsupported("contract error: %s", string(ee))
				return
			}
			vc.unsupported("generator panic: %v", r)
		}
	}()
	S := vc.sorts
	sp := vc.spec
	if sp == nil || fn.Blocks == nil {
		vc.unsupported("no contract or no body")
		return vc
	}
	vc.curTags = es.Tags
	pc := &pairCtx{es: es, cA: cA, cB: cB, calls: map[string]*pairCall{}, pname: es.Params[0], light: light}
	vc.pair = pc
	st := &state{reach: "true", regs: map[*ssa.Alloc]string{}, heap: map[string]string{}, ep: vc.newEpoch()}
	st.alloc = vc.declare("alloc0", "Int")
	st.ep.alloc = "alloc0"
	vc.emit("(assert (> alloc0 0))")
	recv := fn.Params[0]
	sname := vc.declare(q("p:"+recv.Name()), S.SortOf(recv.Type()))
	vc.assume("true", fmt.Sprintf("(and (> %s 0) (<= %s alloc0))", sname, sname))
	pc.s = val{t: sname, typ: recv.Type()}
	stT := recv.Type().Underlying().(*types.Pointer).Elem()
	si := S.StructOf(stT)
	idxHeap, _ := vc.fieldHeap(stT, fidxOf(si, es.IndexField))
	// storeByte sets <recv>.<path>[<recv>.<IndexField>] = c in s2, for a dotted field path through pointers
	storeByte := func(s2 *state, path string, c string) {
		obj, ot := sname, stT
		parts := strings.Split(path, ".")
		for k, fname := range parts {
			osi := S.StructOf(ot)
			hp, ft := vc.fieldHeap(ot, fidxOf(osi, fname))
			if k < len(parts)-1 {
				pt, ok := ft.Underlying().(*types.Pointer)
				if !ok {
					panic(evalErr("equiv byteat: " + fname + " is not a pointer field"))
				}
				obj, ot = fmt.Sprintf("(select %s %s)", vc.hget(s2, hp), obj), pt.Elem()
				continue
			}
			h := vc.hget(s2, hp)
			sl := fmt.Sprintf("(select %s %s)", h, obj)
			at := fmt.Sprintf("(select %s %s)", vc.hget(s2, idxHeap), sname)
			nsl := fmt.Sprintf("(mk-slice (store (s.arr %s) %s %s) (s.len %s) (s.cap %s))", sl, at, c, sl, sl)
			vc.hset(s2, hp, fmt.Sprintf("(store %s %s %s)", h, obj, nsl))
		}
	}
	mkState := func(c string) *state {
		s2 := st.clone()
		for _, path := range strings.Split(es.ByteField, ",") {
			storeByte(s2, path, c)
		}
		return s2
	}
	mk := func(tag string, c string) *frame {
		fr := newFrame(fn, 0, tag)
		fr.spec = sp
		fr.params = map[string]val{}
		for i, p := range fn.Params {
			v := pc.s
			if i > 0 {
				v = val{t: c, typ: p.Type()}
			}
			fr.vals[p] = v
			fr.params[p.Name()] = v
			if i < len(vc.ftParams) {
				fr.params[vc.ftParams[i]] = v
			}
		}
		fr.params["self"] = val{t: vc.fnID(fn), typ: fn.Type(), fn: fn}
		return fr
	}
	frA, frB := mk("A", cA), mk("B", cB)
	stA, stB := mkState(cA), mkState(cB)
	vc.top = frA
	// run A gets the whole precondition; run B starts in the same state up to the byte under the cursor, so only the
	// clauses that mention the byte parameter are stated again for it (the others do not read that byte)
	cname := ""
	if len(es.Params) > 1 {
		cname = es.Params[1]
	}
	for k, fr := range []*frame{frA, frB} {
		s0 := []*state{stA, stB}[k]
		vc.old = s0
		for _, c := range sp.Clauses {
			if c.Kind != "requires" {
				continue
			}
			mentions := false
			walkExpr(c.E, func(x Expr) {
				if id, ok := x.(*EIdent); ok && id.Name == cname {
					mentions = true
				}
			})
			if (k == 1 || light) && !mentions {
				continue
			}
			vc.assume("true", vc.evalBool(fr, s0, s0, c.E, fr.params))
		}
	}
	vc.emit(";;SMOKE-BEGIN")
	vc.emit("(echo \"@smoke\")")
	vc.emit("(check-sat)")
	vc.emit(";;SMOKE-END")
	vc.noOblige = true
	run := func(fr *frame, from *state, mode string) (*state, val) {
		pc.mode = mode
		vc.top = fr
		vc.old = from.clone()
		vc.exec(fr, from)
		if len(fr.rets) == 0 {
			return nil, val{}
		}
		var eds []edge
		for _, r := range fr.rets {
			eds = append(eds, edge{cond: r.cond, st: r.st})
		}
		fin := vc.mergeEdges(eds, "ret"+mode)
		var term string
		for k := len(fr.rets) - 1; k >= 0; k-- {
			rv := fr.rets[k].res[0].t
			if term == "" {
				term = rv
			} else if rv != term {
				term = fmt.Sprintf("(ite %s %s %s)", fr.rets[k].cond, rv, term)
			}
		}
		return fin, val{t: vc.define("ret"+mode, "Int", term+"                                        "), typ: fn.Signature.Results().At(0).Type()}
	}
	finA, retA := run(frA, stA, "A")
	finB, retB := run(frB, stB, "B")
	vc.noOblige = false
	if finA == nil || finB == nil {
		vc.note("function never returns normally")
		return vc
	}
	guard := fmt.Sprintf("(and %s %s)", finA.reach, finB.reach)
	vc.oblige("two-run", "error-or-not", guard, fmt.Sprintf("(= (= %s 0) (= %s 0))", retA.t, retB.t), es.Tags, "")
	ta := vc.equivTerms(finA, pc)
	tb := vc.equivTerms(finB, pc)
	okBoth := fmt.Sprintf("(and %s (= %s 0) (= %s 0))", guard, retA.t, retB.t)
	for i := range ta {
		vc.oblige("two-run", es.Srcs[i], okBoth, vc.eqVals(ta[i], tb[i]), es.Tags, "")
	}
	return vc
}

// pairFuncs lists the repository functions of the function type es is declared for.
func (e *Engine) pairFuncs(es *EquivSpec) []*ssa.Function {
	sig := e.sigOfNamed(strings.TrimPrefix(es.Type, "functype:"))
	var out []*ssa.Function
	if sig == nil {
		return nil
	}
	for _, f := range e.allFuncs {
		if f.Blocks == nil || f.Synthetic != "" || f.Signature.Recv() != nil || f.Parent() != nil || !e.inRepo(f) {
			continue
		}
		if sigKey(sig) != sigKey(f.Signature) {
			continue
		}
		if sp := e.db.Funcs[e.keyOf(f)]; sp != nil && sp.Opaque {
			continue
		}
		out = append(out, f)
	}
	return out
}

type pairJob struct {
	fn   *ssa.Function
	es   *EquivSpec
	a, b string
	fnB  *ssa.Function
	cs   *CrossSpec
}

func (e *Engine) pairJobs(tag string, fnRe interface{ MatchString(string) bool }) (jobs []pairJob, skipped map[string]string) {
	skipped = map[string]string{}
	var keys []string
	for k := range e.db.Equivs {
		keys = append(keys, k)
	}
	sort.Strings(keys)
	for _, k := range keys {
		es := e.db.Equivs[k]
		for _, f := range e.pairFuncs(es) {
			if tag != "" && !hasTag(es.Tags, tag) {
				break
			}
			key := e.keyOf(f)
			if fnRe != nil && !fnRe.MatchString(key) {
				continue
			}
			if r, ok := es.Skip[key]; ok {
				skipped[key] = r
				continue
			}
			for _, p := range es.Pairs {
				jobs = append(jobs, pairJob{fn: f, es: es, a: p[0], b: p[1]})
			}
		}
		for _, cs := range es.Cross {
			if tag != "" && !hasTag(cs.Tags, tag) {
				continue
			}
			var fa, fb *ssa.Function
			for _, f := range e.pairFuncs(es) {
				switch e.keyOf(f) {
				case cs.A:
					fa = f
				case cs.B:
					fb = f
				}
			}
			if fa == nil || fb == nil {
				e.specError("equiv like: %s or %s is not a function of type %s", cs.A, cs.B, es.Type)
				continue
			}
			if fnRe != nil && !fnRe.MatchString(cs.A) {
				continue
			}
			jobs = append(jobs, pairJob{fn: fa, es: es, fnB: fb, cs: cs})
		}
	}
	return
}

func (e *Engine) verifyPairs(jobs []pairJob, dir string, perMs int, solvers []string, agree bool, workers int) []*FnResult {
	results := make([]*FnResult, len(jobs))
	done := make(chan int, len(jobs))
	sem := make(chan struct{}, workers)
	for i := range jobs {
		go func(i int) {
			sem <- struct{}{}
			defer func() { <-sem; done <- i }()
			j := jobs[i]
			if j.cs != nil {
				vc := e.BuildCrossVC(j.fn, j.fnB, j.es, j.cs)
				results[i] = e.Solve(vc, dir, perMs, solvers, agree)
				return
			}
			// light VCs first (frames and determinism only); the whole contracts only if something is left undecided
			vc := e.BuildPairVC(j.fn, j.es, j.a, j.b, true)
			results[i] = e.Solve(vc, dir, perMs, solvers[:1], false)
			if !allDischarged(vc) {
				refuted := false
				for _, o := range vc.obls {
					if o.Result == "sat" {
						refuted = true
					}
				}
				vc2 := e.BuildPairVC(j.fn, j.es, j.a, j.b, false)
				r2 := e.Solve(vc2, dir, perMs, solvers[:1], false)
				if allDischarged(vc2) {
					results[i] = r2
				} else if !refuted && len(solvers) > 1 {
					results[i] = e.Solve(vc, dir, perMs, solvers[1:], false)
				}
			} else if agree {
				results[i] = e.Solve(vc, dir, perMs, solvers, true)
			}
		}(i)
	}
	for range jobs {
		<-done
	}
	return results
}

func fidxOf(si *structInfo, name string) int {
	for i, n := range si.fnames {
		if n == name {
			return i
		}
	}
	panic(evalErr("equiv: no field " + name))
}

func allDischarged(vc *FnVC) bool {
	if len(vc.unsup) > 0 {
		return false
	}
	for _, o := range vc.obls {
		if o.Result != "unsat" && o.Unclaimed == "" {
			return false
		}
	}
	return true
}

// pairReplaySource: a differential test on the real scanner. It scans every fixture document (and its CR / tab
// rewritings), intercepts every dispatch of the state function under test on one of the two bytes, and runs the state
// function on two copies of the reached scanner state that differ only in that byte.
func pairReplaySource(state string, a, b string) string {
	src := `package scanner

import (
	"fmt"
	"os"
	"path/filepath"
	"reflect"
	"strings"
	"testing"

	"github.com/jsightapi/jsight-schema-go-library/fs"

	"github.com/jsightapi/jsight-api-go-library/jerr"
)

func zzClone(s *Scanner, at int, c byte) *Scanner {
	data := append([]byte{}, s.data...)
	if at < len(data) {
		data[at] = c
	}
	f := fs.NewFile(s.file.Name(), data)
	t := *s
	t.file = f
	t.data = f.Content()
	t.stepStack = append(stepFuncStack{}, s.stepStack...)
	t.finds = append([]LexemeEvent{}, s.finds...)
	t.stack = append(eventStack{}, s.stack...)
	t.lastDirectiveParameters = append([]*Lexeme{}, s.lastDirectiveParameters...)
	return &t
}

func zzOutcome(s *Scanner, f stepFunc, c byte) (out string) {
	defer func() {
		if r := recover(); r != nil {
			out = "panic"
		}
	}()
	je := f(s, c)
	if je != nil {
		return "error"
	}
	var sb strings.Builder
	fmt.Fprintf(&sb, "step=%x stack=[", reflect.ValueOf(s.step).Pointer())
	for _, x := range s.stepStack {
		fmt.Fprintf(&sb, "%x ", reflect.ValueOf(x).Pointer())
	}
	fmt.Fprintf(&sb, "] finds=%v evstack=%v cur=%d params=%d", s.finds, s.stack, s.curIndex, len(s.lastDirectiveParameters))
	return sb.String()
}

func TestReplay(t *testing.T) {
	target := reflect.ValueOf(stepFunc(STATE)).Pointer()
	const A, B = byte(BYTEA), byte(BYTEB)
	var docs []string
	filepath.Walk("../testdata", func(p string, info os.FileInfo, err error) error {
		if err == nil && !info.IsDir() && strings.HasSuffix(p, ".jst") {
			docs = append(docs, p)
		}
		return nil
	})
	hits := 0
	for _, p := range docs {
		raw, err := os.ReadFile(p)
		if err != nil {
			continue
		}
		variants := [][]byte{raw, []byte(strings.ReplaceAll(string(raw), "\n", "\r")), []byte(strings.ReplaceAll(string(raw), " ", "\t")),
			[]byte(strings.ReplaceAll(string(raw), "\n", " #\n")), []byte(strings.ReplaceAll(string(raw), "\n", " ##\n")), []byte(strings.ReplaceAll(string(raw), "\n", " # x\r"))}
		for vi, doc := range variants {
			s := NewJApiScanner(fs.NewFile(p, doc))
			var cur stepFunc = s.step
			var wrapper stepFunc
			var diff string
			wrapper = func(s *Scanner, c byte) *jerr.JApiError {
				s.step = cur
				if diff == "" && (c == A || c == B) && reflect.ValueOf(cur).Pointer() == target {
					hits++
					at := int(s.curIndex)
					oa := zzOutcome(zzClone(s, at, A), cur, A)
					ob := zzOutcome(zzClone(s, at, B), cur, B)
					if oa != ob {
						diff = fmt.Sprintf("REPLAY-CONFIRMED: state STATE treats byte %d and byte %d differently: document %s (variant %d) index %d: %q vs %q", A, B, p, vi, at, oa, ob)
					}
				}
				je := cur(s, c)
				cur = s.step
				s.step = wrapper
				return je
			}
			s.step = wrapper
			func() {
				defer func() { recover() }()
				for i := 0; i < len(doc)+10; i++ {
					lex, je := s.Next()
					if je != nil || lex == nil {
						break
					}
				}
			}()
			if diff != "" {
				t.Fatal(diff)
			}
		}
	}
	fmt.Printf("no difference found on %d reached dispatches in %d documents\n", hits, len(docs))
}
`
	src = strings.ReplaceAll(src, "STATE", state)
	src = strings.ReplaceAll(src, "BYTEA", a)
	src = strings.ReplaceAll(src, "BYTEB", b)
	return src
}

// BuildCrossVC: for every byte c satisfying cs.Cond, fnA(s, c) from a state with s.step == fnA and fnB(s, c) from the
// same state with s.step == fnB end in the same scanner state and agree on error / no error. Calls of fnB inside fnA are
// executed in place, so that the two runs meet at the same call instructions.
func (e *Engine) BuildCrossVC(fnA, fnB *ssa.Function, es *EquivSpec, cs *CrossSpec) (vc *FnVC) {
	vc = e.newVC(fnA)
	vc.key = e.keyOf(fnA) + "~like~" + fnB.Name()
	defer func() {
		if r := recover(); r != nil {
			if ee, ok := r.(evalErr); ok {
				e.specError("%s: %s", vc.key, string(ee))
				vc.unsupported("contract error: %s", string(ee))
				return
			}
			vc.unsupported("generator panic: %v", r)
		}
	}()
	S := vc.sorts
	spA := vc.spec
	spB, _ := e.specFor(fnB)
	if spA == nil || spB == nil || fnA.Blocks == nil || fnB.Blocks == nil {
		vc.unsupported("no contract or no body")
		return vc
	}
	vc.curTags = cs.Tags
	cname := "c"
	if len(es.Params) > 1 {
		cname = es.Params[1]
	}
	pc := &pairCtx{es: es, calls: map[string]*pairCall{}, pname: es.Params[0], light: true, forceInline: map[*ssa.Function]bool{fnB: true}, cross: cs, fnB: fnB}
	vc.pair = pc
	st := &state{reach: "true", regs: map[*ssa.Alloc]string{}, heap: map[string]string{}, ep: vc.newEpoch()}
	st.alloc = vc.declare("alloc0", "Int")
	st.ep.alloc = "alloc0"
	vc.emit("(assert (> alloc0 0))")
	recv := fnA.Params[0]
	sname := vc.declare(q("p:"+recv.Name()), S.SortOf(recv.Type()))
	vc.assume("true", fmt.Sprintf("(and (> %s 0) (<= %s alloc0))", sname, sname))
	pc.s = val{t: sname, typ: recv.Type()}
	cterm := vc.declare(q("p:"+cname), "Int")
	vc.assume("true", fmt.Sprintf("(and (<= 0 %s) (<= %s 255))", cterm, cterm))
	pc.cA, pc.cB = cterm, cterm
	stT := recv.Type().Underlying().(*types.Pointer).Elem()
	si := S.StructOf(stT)
	stepHeap, _ := vc.fieldHeap(stT, fidxOf(si, "step"))
	mkFrame := func(fn *ssa.Function, tag string, sp *FuncSpec) *frame {
		fr := newFrame(fn, 0, tag)
		fr.spec = sp
		fr.params = map[string]val{}
		for i, p := range fn.Params {
			v := pc.s
			if i > 0 {
				v = val{t: cterm, typ: p.Type()}
			}
			fr.vals[p] = v
			fr.params[p.Name()] = v
			if i < len(es.Params) {
				fr.params[es.Params[i]] = v
			}
		}
		fr.params["self"] = val{t: vc.fnID(fn), typ: fn.Type(), fn: fn}
		return fr
	}
	frA, frB := mkFrame(fnA, "A", spA), mkFrame(fnB, "B", spB)
	stA := st.clone()
	vc.hset(stA, stepHeap, fmt.Sprintf("(store %s %s %s)", vc.hget(stA, stepHeap), sname, vc.fnID(fnA)))
	stB := st.clone()
	vc.hset(stB, stepHeap, fmt.Sprintf("(store %s %s %s)", vc.hget(stB, stepHeap), sname, vc.fnID(fnB)))
	vc.top = frA
	// the byte-dependent preconditions and the condition of the lemma
	for k, fr := range []*frame{frA, frB} {
		s0 := []*state{stA, stB}[k]
		vc.old = s0
		for _, c := range fr.spec.Clauses {
			if c.Kind != "requires" {
				continue
			}
			mentions := false
			walkExpr(c.E, func(x Expr) {
				if id, ok := x.(*EIdent); ok && id.Name == cname {
					mentions = true
				}
			})
			if mentions {
				vc.assume("true", vc.evalBool(fr, s0, s0, c.E, fr.params))
			}
		}
	}
	vc.assume("true", vc.evalBool(frA, stA, stA, cs.Cond, frA.params))
	vc.emit(";;SMOKE-BEGIN")
	vc.emit("(echo \"@smoke\")")
	vc.emit("(check-sat)")
	vc.emit(";;SMOKE-END")
	vc.noOblige = true
	run := func(fr *frame, from *state, mode string) (*state, val) {
		pc.mode = mode
		vc.top = fr
		vc.old = from.clone()
		vc.exec(fr, from)
		if len(fr.rets) == 0 {
			return nil, val{}
		}
		var eds []edge
		for _, r := range fr.rets {
			eds = append(eds, edge{cond: r.cond, st: r.st})
		}
		fin := vc.mergeEdges(eds, "ret"+mode)
		var term string
		for k := len(fr.rets) - 1; k >= 0; k-- {
			rv := fr.rets[k].res[0].t
			if term == "" {
				term = rv
			} else if rv != term {
				term = fmt.Sprintf("(ite %s %s %s)", fr.rets[k].cond, rv, term)
			}
		}
		return fin, val{t: vc.define("ret"+mode, "Int", term+"                                        "), typ: fr.fn.Signature.Results().At(0).Type()}
	}
	finA, retA := run(frA, stA, "A")
	finB, retB := run(frB, stB, "B")
	vc.noOblige = false
	if finA == nil || finB == nil {
		vc.note("function never returns normally")
		return vc
	}
	guard := fmt.Sprintf("(and %s %s)", finA.reach, finB.reach)
	vc.oblige("like", "error-or-not", guard, fmt.Sprintf("(= (= %s 0) (= %s 0))", retA.t, retB.t), cs.Tags, "")
	ta := vc.equivTerms(finA, pc)
	tb := vc.equivTerms(finB, pc)
	okBoth := fmt.Sprintf("(and %s (= %s 0) (= %s 0))", guard, retA.t, retB.t)
	for i := range ta {
		vc.oblige("like", es.Srcs[i], okBoth, vc.eqVals(ta[i], tb[i]), cs.Tags, "")
	}
	return vc
}

// crossReplaySource: differential test for a cross-function lemma: at every dispatch of state A on a byte satisfying the
// condition, A is run on one copy of the reached scanner and B (made the current state) on another; outcomes must agree.
func crossReplaySource(stateA, stateB, cond string) string {
	src := pairReplaySource(stateA, "0", "0")
	src = strings.Replace(src, "if diff == \"\" && (c == A || c == B) && reflect.ValueOf(cur).Pointer() == target {", "if diff == \"\" && ("+cond+") && reflect.ValueOf(cur).Pointer() == target {", 1)
	src = strings.Replace(src, "oa := zzOutcome(zzClone(s, at, A), cur, A)", "oa := zzOutcome(zzClone(s, at, c), cur, c)", 1)
	src = strings.Replace(src, "ob := zzOutcome(zzClone(s, at, B), cur, B)", "sb := zzClone(s, at, c)\n\t\t\t\t\tsb.step = "+stateB+"\n\t\t\t\t\tob := zzOutcome(sb, "+stateB+", c)", 1)
	src = strings.Replace(src, "treats byte %d and byte %d differently: document %s (variant %d) index %d: %q vs %q\", A, B, p, vi, at, oa, ob)", "and state "+stateB+" treat byte %d differently: document %s (variant %d) index %d: %q vs %q\", c, p, vi, at, oa, ob)", 1)
	src = strings.Replace(src, "const A, B = byte(0), byte(0)", "", 1)
	return src
}
