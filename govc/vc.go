package main

// Verification-condition generator: forward symbolic execution of naive-form go/ssa
// over the loop-cut CFG, state merging at joins, one SMT script per function.

import (
	"fmt"
	"go/constant"
	"go/token"
	"go/types"
	"hash/fnv"
	"sort"
	"strings"

	"golang.org/x/tools/go/ssa"
)

// ---------- values and locations ----------

type pathElem struct {
	field int    // >=0: struct field index
	idx   string // != "": element index term (into s.arr for slices, or array)
	typ   types.Type
	isArr bool // element of Go array (Array Int T) rather than Slice
}

type lval struct {
	alloc      *ssa.Alloc // register root
	heap       string     // heap array root name (field / cell / map...) when alloc==nil && !global
	ref        string     // index into heap array
	global     string     // global heap name (scalar)
	rtyp       types.Type // type of the root location's content
	path       []pathElem
	typ        types.Type // type of the designated location
	anon       string     // detached value (loads only)
	opaqueBase *lval      // field of an opaque struct: a store havocs the whole struct at opaqueBase
}

type val struct {
	strAt string // for a byte read from a string: the (str.at s i) term (character comparisons use it)
	let   *LetSpec
	t     string
	lv    *lval
	tup   []val
	typ   types.Type
	fn    *ssa.Function // statically known function value
}

type epoch struct {
	id    int
	alloc string // upper bound of the refs stored in heap arrays first read in this epoch
	cond  string
	a, b  *epoch // merge when a != nil
}

type deferred struct {
	call *ssa.Defer
	args []val
	fnv  val
}

type state struct {
	reach  string
	regs   map[*ssa.Alloc]string
	heap   map[string]string
	ep     *epoch
	alloc  string
	defers []deferred
	ghost  map[string]string
	lvregs map[*ssa.Alloc]*lval // local pointer variables that hold the address of a field / element (a location, not a ref)
}

func (s *state) clone() *state {
	n := &state{reach: s.reach, regs: make(map[*ssa.Alloc]string, len(s.regs)), heap: make(map[string]string, len(s.heap)), ep: s.ep, alloc: s.alloc}
	for k, v := range s.regs {
		n.regs[k] = v
	}
	for k, v := range s.heap {
		n.heap[k] = v
	}
	n.defers = append(n.defers, s.defers...)
	if len(s.lvregs) > 0 {
		n.lvregs = make(map[*ssa.Alloc]*lval, len(s.lvregs))
		for k, v := range s.lvregs {
			n.lvregs[k] = v
		}
	}
	return n
}

type Obligation struct {
	Name      string
	Kind      string
	Tags      []string
	Desc      string
	Pos       string
	Result    string // unsat (discharged) / sat / unknown / timeout
	Solver    string
	Time      float64
	Fn        string
	idx       int
	guard     string
	cond      string
	Unclaimed string
	witness   string
	knownOnly bool
}

type edge struct {
	from *ssa.BasicBlock
	cond string
	st   *state
}

type loopInfo struct {
	head      *ssa.BasicBlock
	ord       int
	body      map[*ssa.BasicBlock]bool
	modRegs   map[*ssa.Alloc]bool
	modHeap   map[string]bool
	modAll    bool
	headSt    *state
	variant   []string // variant values at head
	invs      []*Clause
	decs      []*Clause
	frames    []*Clause
	hasFrame  bool
	iter      string
	frameObjs []string
	frameSkip map[string]bool
}

// lookupHit: a comma-ok lookup on a map declared reject-on-hit; term = the lookup was reached and found its key
type lookupHit struct {
	name string
	term string
	tags []string
}

type frame struct {
	hits      []lookupHit
	fn        *ssa.Function
	vals      map[ssa.Value]val
	prov      map[ssa.Value]*lval
	provOf    map[ssa.Value]string // offset term for prov
	in        map[*ssa.BasicBlock][]edge
	loops     map[*ssa.BasicBlock]*loopInfo
	rets      []retEdge
	params    map[string]val
	depth     int
	prefix    string // obligation name prefix for inlined code
	entry     *state
	spec      *FuncSpec
	names     map[string]*ssa.Alloc
	namedVals map[string]ssa.Value
	parent    *frame
	lets      map[string]val
	named     []*ssa.Alloc
}

type retEdge struct {
	cond string
	st   *state
	res  []val
}

type FnVC struct {
	eng             *Engine
	fn              *ssa.Function
	key             string
	spec            *FuncSpec
	sorts           *Sorts
	decl            []string
	declared        map[string]bool
	body            []string
	obls            []*Obligation
	fresh           int
	epochs          int
	epMemo          map[string]string
	notes           []string // unmodelled / abstracted
	unsup           []string // reasons making the function unverified
	assumes         map[string]bool
	oblNames        map[string]int
	tablesUsed      map[string]bool
	specFnUsed      map[string]bool
	axiomsDone      bool
	old             *state
	top             *frame
	fnIDsUsed       map[*ssa.Function]bool
	curTags         []string
	strConsts       map[string]bool
	mode            string
	retTerms        []string
	pendingRefBound [][2]string
	privCells       []*ssa.Alloc
	pair            *pairCtx
	noOblige        bool
	lastInlined     bool
	fnHints         map[string]*ssa.Function
	letMemo         map[string]string
	covers          []string
	letShapes       []letShape
	ftParams        []string
}

func (vc *FnVC) newName(prefix string) string {
	vc.fresh++
	return q(fmt.Sprintf("%s!%d", prefix, vc.fresh))
}

func (vc *FnVC) declare(name, sort string) string {
	if !vc.declared[name] {
		vc.declared[name] = true
		vc.decl = append(vc.decl, fmt.Sprintf("(declare-const %s %s)", name, sort))
	}
	return name
}

func (vc *FnVC) freshConst(prefix, sort string) string {
	return vc.declare(vc.newName(prefix), sort)
}

// define introduces a named constant equal to term.
func (vc *FnVC) define(prefix, sort, term string) string {
	if len(term) < 40 && !strings.Contains(term, "(let") {
		return term
	}
	n := vc.freshConst(prefix, sort)
	vc.emit("(assert (= %s %s))", n, term)
	return n
}

func (vc *FnVC) emit(f string, a ...any) { vc.body = append(vc.body, fmt.Sprintf(f, a...)) }

func (vc *FnVC) assume(guard, fact string) {
	if fact == "true" {
		return
	}
	if guard == "true" {
		vc.emit("(assert %s)", fact)
	} else {
		vc.emit("(assert (=> %s %s))", guard, fact)
	}
}

func (vc *FnVC) note(f string, a ...any) {
	s := fmt.Sprintf(f, a...)
	for _, n := range vc.notes {
		if n == s {
			return
		}
	}
	vc.notes = append(vc.notes, s)
}

func (vc *FnVC) unsupported(f string, a ...any) {
	s := fmt.Sprintf(f, a...)
	for _, n := range vc.unsup {
		if n == s {
			return
		}
	}
	vc.unsup = append(vc.unsup, s)
}

func (vc *FnVC) assumption(s string) { vc.assumes[s] = true }

func shorten(desc string, n int) string {
	if len(desc) > n {
		h := fnv.New32a()
		h.Write([]byte(desc))
		return fmt.Sprintf("%s~%04x", desc[:n-6], h.Sum32()&0xffff)
	}
	return desc
}

// oblige records a proof obligation: under guard, cond must hold. Afterwards it is assumed.
func (vc *FnVC) oblige(kind, desc, guard, cond string, tags []string, pos string) {
	if cond == "true" {
		return
	}
	if len(desc) > 72 {
		h := fnv.New32a()
		h.Write([]byte(desc))
		desc = fmt.Sprintf("%s~%04x", desc[:60], h.Sum32()&0xffff)
	}
	base := vc.key + "#" + kind + "@" + desc
	vc.oblNames[base]++
	name := base
	if n := vc.oblNames[base]; n > 1 {
		name = fmt.Sprintf("%s#%d", base, n)
	}
	o := &Obligation{Name: name, Kind: kind, Desc: desc, Tags: tags, Pos: pos, Fn: vc.key, idx: len(vc.obls), guard: guard, cond: cond}
	if vc.spec != nil {
		for suffix, reason := range vc.spec.Unclaimed {
			if strings.HasPrefix(suffix, "kind!=") {
				// kind!=a&b : everything except obligations of kind a or b
				claimed := false
				for _, k := range strings.Split(strings.TrimPrefix(suffix, "kind!="), "&") {
					if kind == k {
						claimed = true
					}
				}
				if !claimed {
					o.Unclaimed = reason
				}
			} else if strings.HasSuffix(name, suffix) || strings.Contains(name, suffix) {
				o.Unclaimed = reason
			}
		}
	}
	if vc.noOblige {
		// two-run VCs: the single-run obligations are proved elsewhere; here they are assumed (full mode) or ignored (light)
		if vc.pair == nil || !vc.pair.light {
			vc.assume(guard, cond)
		}
		return
	}
	vc.obls = append(vc.obls, o)
	if o.Unclaimed != "" {
		// not claimed (reason recorded): no solver time is spent on it; it is assumed like any checked obligation
		o.Result = "unclaimed"
		vc.assume(guard, cond)
		return
	}
	vc.emit("(push 1)")
	vc.emit("(assert (and %s (not %s)))", guard, cond)
	vc.emit("(echo \"@obl %d\")", o.idx)
	vc.emit("(check-sat)")
	vc.emit("(pop 1)")
	vc.assume(guard, cond)
}

// ---------- heap ----------

type heapDesc struct {
	kind   string // elem (Array Int T), mapP, mapV, mapL, scalar (T), raw
	t1, t2 types.Type
	raw    string
}

func (vc *FnVC) hsort(name string) string {
	d, ok := vc.eng.heapDescOf(name)
	if !ok {
		return ""
	}
	S := vc.sorts
	switch d.kind {
	case "elem":
		return "(Array Int " + S.SortOf(d.t1) + ")"
	case "mapP":
		return fmt.Sprintf("(Array Int (Array %s Bool))", S.SortOf(d.t1))
	case "mapV":
		return fmt.Sprintf("(Array Int (Array %s %s))", S.SortOf(d.t1), S.SortOf(d.t2))
	case "mapL":
		return "(Array Int Int)"
	case "scalar":
		return S.SortOf(d.t1)
	}
	return d.raw
}

func (vc *FnVC) fieldHeap(st types.Type, i int) (string, types.Type) {
	si := vc.sorts.StructOf(st)
	ft := si.ftypes[i]
	name := "H:" + si.key + "." + si.fnames[i]
	vc.eng.regHeap(name, heapDesc{kind: "elem", t1: ft})
	return name, ft
}

func (vc *FnVC) ghostHeap(st types.Type, g GhostField) (string, string) {
	si := vc.sorts.StructOf(st)
	name := "H:" + si.key + "." + g.Name
	srt := ghostSort(g.GoType)
	vc.eng.regHeap(name, heapDesc{kind: "raw", raw: "(Array Int " + srt + ")"})
	return name, srt
}

func ghostSort(t string) string {
	switch t {
	case "bool":
		return "Bool"
	case "string":
		return "String"
	}
	return "Int"
}

func (vc *FnVC) cellHeap(t types.Type) string {
	name := "C:" + typeKey(t)
	vc.eng.regHeap(name, heapDesc{kind: "elem", t1: t})
	return name
}

func (vc *FnVC) mapHeaps(mt *types.Map) (present, value, length string) {
	k := typeKey(mt)
	present, value, length = "MP:"+k, "MV:"+k, "ML:"+k
	vc.eng.regHeap(present, heapDesc{kind: "mapP", t1: mt.Key()})
	vc.eng.regHeap(value, heapDesc{kind: "mapV", t1: mt.Key(), t2: mt.Elem()})
	vc.eng.regHeap(length, heapDesc{kind: "mapL"})
	return
}

func (vc *FnVC) globalHeap(g *ssa.Global) string {
	name := "G:" + shortPath(g.Pkg.Pkg.Path()) + "." + g.Name()
	vc.eng.regHeap(name, heapDesc{kind: "scalar", t1: g.Type().(*types.Pointer).Elem()})
	return name
}

func (vc *FnVC) newEpoch() *epoch {
	vc.epochs++
	return &epoch{id: vc.epochs}
}

func (vc *FnVC) heapAt(name string, ep *epoch) string {
	key := fmt.Sprintf("%s@e%d", name, ep.id)
	if t, ok := vc.epMemo[key]; ok {
		return t
	}
	srt := vc.hsort(name)
	if srt == "" {
		panic("heap sort unknown for " + name)
	}
	var t string
	if ep.a == nil {
		t = vc.declare(q(key), srt)
		vc.heapTyping(name, t, ep.alloc)
	} else {
		a, b := vc.heapAt(name, ep.a), vc.heapAt(name, ep.b)
		if a == b {
			t = a
		} else {
			t = vc.declare(q(key), srt)
			// definitional; placed in declarations section as an assertion
			vc.decl = append(vc.decl, fmt.Sprintf("(assert (= %s (ite %s %s %s)))", t, ep.cond, a, b))
		}
	}
	vc.epMemo[key] = t
	return t
}

func (vc *FnVC) hget(st *state, name string) string {
	if t, ok := st.heap[name]; ok {
		return t
	}
	return vc.heapAt(name, st.ep)
}

func (vc *FnVC) hset(st *state, name, term string) {
	srt := vc.hsort(name)
	st.heap[name] = vc.define("h:"+name, srt, term)
}

func (vc *FnVC) havocHeap(st *state, name string) {
	st.heap[name] = vc.freshConst("hv:"+name, vc.hsort(name))
	vc.heapTyping(name, st.heap[name], "")
	vc.pendingRefBound = append(vc.pendingRefBound, [2]string{name, st.heap[name]})
}

// boundPendingRefs: the heap arrays havocked since the last call hold only refs allocated so far (<= alloc).
func (vc *FnVC) boundPendingRefs(alloc string) {
	for _, p := range vc.pendingRefBound {
		if d, ok := vc.eng.heapDescOf(p[0]); ok && d.kind == "elem" && isRefType(d.t1) {
			vc.decl = append(vc.decl, "")
			vc.emit("(assert (forall ((r!h Int)) (! (<= (select %s r!h) %s) :pattern ((select %s r!h)))))", p[1], alloc, p[1])
		}
	}
	vc.pendingRefBound = nil
}

// heapTyping asserts that every cell of a freshly declared heap array holds a well-typed value.
func (vc *FnVC) heapTyping(name, term, alloc string) {
	d, ok := vc.eng.heapDescOf(name)
	if !ok {
		return
	}
	if alloc != "" && d.kind == "elem" && isRefType(d.t1) {
		vc.decl = append(vc.decl, fmt.Sprintf("(assert (forall ((r!h Int)) (! (<= (select %s r!h) %s) :pattern ((select %s r!h)))))", term, alloc, term))
	}
	switch d.kind {
	case "elem":
		if r := vc.sorts.RangeOf(d.t1, fmt.Sprintf("(select %s r!h)", term)); r != "true" {
			vc.decl = append(vc.decl, fmt.Sprintf("(assert (forall ((r!h Int)) (! %s :pattern ((select %s r!h)))))", r, term))
		}
	case "scalar":
		if r := vc.sorts.RangeOf(d.t1, term); r != "true" {
			vc.decl = append(vc.decl, fmt.Sprintf("(assert %s)", r))
		}
	case "mapL":
		vc.decl = append(vc.decl, fmt.Sprintf("(assert (forall ((r!h Int)) (! (>= (select %s r!h) 0) :pattern ((select %s r!h)))))", term, term))
	}
}

// havocAllExcept: whole-heap havoc for a call with unknown frame, keeping the arrays the callee provably cannot write
// (fields with a complete writers declaration none of whose writers is reachable from the callee).
func (vc *FnVC) havocAllFor(st *state, callee *ssa.Function) {
	keep := map[string]string{}
	for _, h := range vc.eng.protectedHeaps(callee) {
		if _, ok := vc.eng.heapDescOf(h); ok {
			keep[h] = vc.hget(st, h)
		}
	}
	vc.havocAll(st)
	for h, t := range keep {
		st.heap[h] = t
	}
	if len(keep) > 0 {
		vc.assumption("frame by writers declarations: a callee that cannot reach a declared writer of a field leaves that field unchanged (the declarations are checked by the C06/C18 frame scans)")
	}
}

func (vc *FnVC) havocAll(st *state) {
	// local variables that escape only into locally deferred closures cannot be changed by a callee:
	// their cells survive the havoc
	type keep struct {
		lv *lval
		t  string
	}
	var kept []keep
	if vc.top != nil {
		for _, a := range vc.privateCells() {
			if v, ok := vc.top.vals[a]; ok {
				lv := vc.deref(v)
				if lv.heap != "$struct" {
					kept = append(kept, keep{lv, vc.loadLV(st, lv)})
				}
			}
		}
	}
	defer func() {
		for _, k := range kept {
			vc.storeLV(st, k.lv, k.t)
		}
	}()
	na := vc.freshConst("alloc", "Int")
	vc.assume("true", fmt.Sprintf("(>= %s %s)", na, st.alloc))
	st.alloc = na
	st.ep = vc.newEpoch()
	st.ep.alloc = na
	st.heap = map[string]string{}
}

// ---------- lvalues ----------

func (vc *FnVC) readRoot(st *state, lv *lval) string {
	switch {
	case lv.anon != "":
		return lv.anon
	case lv.alloc != nil:
		t, ok := st.regs[lv.alloc]
		if !ok {
			// read before any store on this path: zero value
			t = vc.sorts.ZeroOf(lv.rtyp)
		}
		return t
	case lv.global != "":
		return vc.hget(st, lv.global)
	default:
		return fmt.Sprintf("(select %s %s)", vc.hget(st, lv.heap), lv.ref)
	}
}

func (vc *FnVC) writeRoot(st *state, lv *lval, term string) {
	switch {
	case lv.anon != "":
		vc.unsupported("store through a slice/array value of unknown provenance")
	case lv.alloc != nil:
		st.regs[lv.alloc] = vc.define("r:"+lv.alloc.Comment, vc.sorts.SortOf(lv.rtyp), term)
	case lv.global != "":
		vc.hset(st, lv.global, term)
	default:
		vc.hset(st, lv.heap, fmt.Sprintf("(store %s %s %s)", vc.hget(st, lv.heap), lv.ref, term))
	}
}

func (vc *FnVC) project(term string, parent types.Type, pe pathElem) string {
	if pe.idx != "" {
		if pe.isArr {
			return fmt.Sprintf("(select %s %s)", term, pe.idx)
		}
		return fmt.Sprintf("(select (s.arr %s) %s)", term, pe.idx)
	}
	si := vc.sorts.StructOf(parent)
	return fmt.Sprintf("(%s %s)", si.fields[pe.field], term)
}

func (vc *FnVC) inject(term string, parent types.Type, pe pathElem, nv string) string {
	if pe.idx != "" {
		if pe.isArr {
			return fmt.Sprintf("(store %s %s %s)", term, pe.idx, nv)
		}
		return fmt.Sprintf("(mk-slice (store (s.arr %s) %s %s) (s.len %s) (s.cap %s))", term, pe.idx, nv, term, term)
	}
	si := vc.sorts.StructOf(parent)
	var fs []string
	for i, sel := range si.fields {
		if i == pe.field {
			fs = append(fs, nv)
		} else {
			fs = append(fs, fmt.Sprintf("(%s %s)", sel, term))
		}
	}
	return "(" + si.ctor + " " + strings.Join(fs, " ") + ")"
}

func (vc *FnVC) load(st *state, lv *lval) string {
	t := vc.readRoot(st, lv)
	pt := lv.rtyp
	for _, pe := range lv.path {
		t = vc.project(t, pt, pe)
		pt = pe.typ
	}
	return t
}

func (vc *FnVC) store(st *state, lv *lval, nv string) {
	if len(lv.path) == 0 {
		vc.writeRoot(st, lv, nv)
		return
	}
	root := vc.readRoot(st, lv)
	// name the root to avoid term blow-up
	root = vc.define("root", vc.sorts.SortOf(lv.rtyp), root)
	var rec func(term string, pt types.Type, path []pathElem) string
	rec = func(term string, pt types.Type, path []pathElem) string {
		if len(path) == 0 {
			return nv
		}
		inner := vc.project(term, pt, path[0])
		return vc.inject(term, pt, path[0], rec(inner, path[0].typ, path[1:]))
	}
	vc.writeRoot(st, lv, rec(root, lv.rtyp, lv.path))
}

func (lv *lval) extend(pe pathElem) *lval {
	n := *lv
	n.path = append(append([]pathElem{}, lv.path...), pe)
	n.typ = pe.typ
	return &n
}

// pointee lvalue for a pointer value
func (vc *FnVC) deref(p val) *lval {
	if p.lv != nil {
		return p.lv
	}
	pt, ok := p.typ.Underlying().(*types.Pointer)
	if !ok {
		panic(fmt.Sprintf("deref of non-pointer %v", p.typ))
	}
	el := pt.Elem()
	if _, isStruct := el.Underlying().(*types.Struct); isStruct && !isSyncType(el) && !vc.sorts.StructOf(el).opaque {
		// whole-struct location: handled by loadStruct/storeStruct
		return &lval{heap: "$struct", ref: p.t, rtyp: el, typ: el}
	}
	return &lval{heap: vc.cellHeap(el), ref: p.t, rtyp: el, typ: el}
}

func (vc *FnVC) loadLV(st *state, lv *lval) string {
	if lv.heap == "$struct" {
		si := vc.sorts.StructOf(lv.rtyp)
		var fs []string
		for i := range si.fields {
			h, _ := vc.fieldHeap(lv.rtyp, i)
			fs = append(fs, fmt.Sprintf("(select %s %s)", vc.hget(st, h), lv.ref))
		}
		if len(fs) == 0 {
			fs = append(fs, "0")
		}
		t := "(" + si.ctor + " " + strings.Join(fs, " ") + ")"
		pt := lv.rtyp
		for _, pe := range lv.path {
			t = vc.project(t, pt, pe)
			pt = pe.typ
		}
		return t
	}
	return vc.load(st, lv)
}

func (vc *FnVC) storeLV(st *state, lv *lval, nv string) {
	if lv.heap == "$struct" {
		if len(lv.path) != 0 {
			panic("path on $struct")
		}
		si := vc.sorts.StructOf(lv.rtyp)
		nv = vc.define("sv", si.sort, nv)
		for i, sel := range si.fields {
			h, _ := vc.fieldHeap(lv.rtyp, i)
			vc.hset(st, h, fmt.Sprintf("(store %s %s (%s %s))", vc.hget(st, h), lv.ref, sel, nv))
		}
		return
	}
	vc.store(st, lv, nv)
}

// fieldAddr computes the location of field i of the struct pointed to by p.
func (vc *FnVC) fieldAddr(p val, i int) *lval {
	pt := p.typ.Underlying().(*types.Pointer).Elem()
	stt := pt.Underlying().(*types.Struct)
	ft := stt.Field(i).Type()
	if p.lv != nil && p.lv.heap != "$struct" {
		return p.lv.extend(pathElem{field: i, typ: ft})
	}
	ref := p.t
	if p.lv != nil {
		ref = p.lv.ref
	}
	h, _ := vc.fieldHeap(pt, i)
	return &lval{heap: h, ref: ref, rtyp: ft, typ: ft}
}

// ---------- engine-level helpers ----------

func (vc *FnVC) constVal(c *ssa.Const) val {
	t := c.Type()
	if c.Value == nil {
		return val{t: vc.sorts.ZeroOf(t), typ: t}
	}
	switch c.Value.Kind() {
	case constant.Bool:
		return val{t: fmt.Sprint(constant.BoolVal(c.Value)), typ: t}
	case constant.Int:
		return val{t: smtInt(c.Value.ExactString()), typ: t}
	case constant.String:
		return val{t: smtString(constant.StringVal(c.Value)), typ: t}
	case constant.Float:
		f, _ := constant.Float64Val(c.Value)
		return val{t: fmt.Sprintf("%f", f), typ: t}
	}
	return val{t: vc.freshConst("const", vc.sorts.SortOf(t)), typ: t}
}

func smtInt(s string) string {
	if strings.HasPrefix(s, "-") {
		return "(- " + s[1:] + ")"
	}
	return s
}

func smtString(s string) string {
	var sb strings.Builder
	sb.WriteByte('"')
	for i := 0; i < len(s); i++ {
		c := s[i]
		if c == '"' {
			sb.WriteString("\"\"")
		} else if c >= 32 && c < 127 && c != '\\' {
			sb.WriteByte(c)
		} else {
			fmt.Fprintf(&sb, "\\u{%x}", c)
		}
	}
	sb.WriteByte('"')
	return sb.String()
}

func (vc *FnVC) fnID(f *ssa.Function) string {
	return fmt.Sprint(vc.eng.funcID(f))
}

func (vc *FnVC) typeID(t types.Type) string {
	return fmt.Sprint(vc.eng.typeID(t))
}

func (fr *frame) get(vc *FnVC, v ssa.Value) val {
	switch x := v.(type) {
	case *ssa.Const:
		return vc.constVal(x)
	case *ssa.Function:
		return val{t: vc.fnID(x), typ: x.Type(), fn: x}
	case *ssa.Global:
		name := vc.globalHeap(x)
		el := x.Type().(*types.Pointer).Elem()
		return val{lv: &lval{global: name, rtyp: el, typ: el}, typ: x.Type()}
	case *ssa.Builtin:
		return val{t: "0", typ: x.Type()}
	}
	if r, ok := fr.vals[v]; ok {
		return r
	}
	// value not yet defined (should not happen in topological order)
	vc.unsupported("use of undefined SSA value %s in %s", v.Name(), fr.fn.Name())
	r := val{t: vc.freshConst("undef", vc.sorts.SortOf(v.Type())), typ: v.Type()}
	fr.vals[v] = r
	return r
}

func (fr *frame) set(vc *FnVC, v ssa.Value, term string) val {
	srt := vc.sorts.SortOf(v.Type())
	r := val{t: vc.define(fr.fn.Name()+"."+v.Name(), srt, term), typ: v.Type()}
	fr.vals[v] = r
	return r
}

// ---------- loop discovery ----------

func findLoops(fn *ssa.Function) (map[*ssa.BasicBlock]*loopInfo, []*ssa.BasicBlock) {
	loops := map[*ssa.BasicBlock]*loopInfo{}
	for _, b := range fn.Blocks {
		for _, s := range b.Succs {
			if s.Dominates(b) {
				li := loops[s]
				if li == nil {
					li = &loopInfo{head: s, body: map[*ssa.BasicBlock]bool{s: true}, modRegs: map[*ssa.Alloc]bool{}, modHeap: map[string]bool{}}
					loops[s] = li
				}
				// natural loop of back edge b->s
				stack := []*ssa.BasicBlock{b}
				for len(stack) > 0 {
					n := stack[len(stack)-1]
					stack = stack[:len(stack)-1]
					if li.body[n] {
						continue
					}
					li.body[n] = true
					stack = append(stack, n.Preds...)
				}
			}
		}
	}
	// ordinals by source position of head block's first instruction with a position, fallback block index
	var heads []*ssa.BasicBlock
	for h := range loops {
		heads = append(heads, h)
	}
	sort.Slice(heads, func(i, j int) bool { return loopPos(loops[heads[i]]) < loopPos(loops[heads[j]]) })
	for i, h := range heads {
		loops[h].ord = i + 1
	}
	// topological order ignoring back edges
	var order []*ssa.BasicBlock
	seen := map[*ssa.BasicBlock]bool{}
	var dfs func(b *ssa.BasicBlock)
	dfs = func(b *ssa.BasicBlock) {
		seen[b] = true
		for _, s := range b.Succs {
			if !seen[s] && !s.Dominates(b) {
				dfs(s)
			}
		}
		order = append(order, b)
	}
	if len(fn.Blocks) > 0 {
		dfs(fn.Blocks[0])
	}
	for i, j := 0, len(order)-1; i < j; i, j = i+1, j-1 {
		order[i], order[j] = order[j], order[i]
	}
	return loops, order
}

func loopPos(li *loopInfo) int {
	best := int(^uint(0) >> 1)
	for b := range li.body {
		for _, ins := range b.Instrs {
			if p := ins.Pos(); p.IsValid() && int(p) < best {
				best = int(p)
			}
		}
	}
	if best == int(^uint(0)>>1) {
		return 1<<40 + li.head.Index
	}
	return best
}

// rootOfAddr statically determines which register / heap array a store through addr writes.
func (vc *FnVC) rootOfAddr(addr ssa.Value) (alloc *ssa.Alloc, heap string, ok bool) {
	switch a := addr.(type) {
	case *ssa.Alloc:
		if !a.Heap {
			return a, "", true
		}
		el := a.Type().(*types.Pointer).Elem()
		if _, isS := el.Underlying().(*types.Struct); isS && !isSyncType(el) {
			return nil, "", false // whole-struct store: all fields
		}
		return nil, vc.cellHeap(el), true
	case *ssa.FieldAddr:
		if al, h, ok := vc.rootOfAddrInner(a.X); ok {
			return al, h, true
		}
		pt := a.X.Type().Underlying().(*types.Pointer).Elem()
		if vc.sorts.StructOf(pt).opaque {
			return nil, "", false
		}
		h, _ := vc.fieldHeap(pt, a.Field)
		return nil, h, true
	case *ssa.IndexAddr:
		// slice element: provenance of the slice value
		switch x := a.X.(type) {
		case *ssa.UnOp:
			if x.Op == token.MUL {
				return vc.rootOfAddr(x.X)
			}
		case *ssa.Slice:
			if u, ok := x.X.(*ssa.UnOp); ok && u.Op == token.MUL {
				return vc.rootOfAddr(u.X)
			}
		case *ssa.Alloc, *ssa.FieldAddr: // pointer to array
			return vc.rootOfAddr(x)
		}
		return nil, "", false
	case *ssa.Global:
		return nil, vc.globalHeap(a), true
	case *ssa.Parameter, *ssa.UnOp, *ssa.Call, *ssa.Extract, *ssa.Phi, *ssa.FreeVar, *ssa.MakeInterface, *ssa.TypeAssert, *ssa.Lookup:
		pt, isP := addr.Type().Underlying().(*types.Pointer)
		if !isP {
			return nil, "", false
		}
		el := pt.Elem()
		if _, isS := el.Underlying().(*types.Struct); isS && !isSyncType(el) {
			return nil, "", false
		}
		return nil, vc.cellHeap(el), true
	}
	return nil, "", false
}

// rootOfAddrInner: for FieldAddr(X, f): if X is itself an address inside a register or a nested struct field, the root is X's root.
func (vc *FnVC) rootOfAddrInner(x ssa.Value) (*ssa.Alloc, string, bool) {
	switch a := x.(type) {
	case *ssa.Alloc:
		if !a.Heap {
			return a, "", true
		}
	case *ssa.FieldAddr:
		// nested struct value field: root is the outer field heap
		return vc.rootOfAddr(a)
	case *ssa.IndexAddr:
		return vc.rootOfAddr(a)
	}
	return nil, "", false
}

// subSlice builds x[lo:hi] (capacity up to mx). With lo == 0 the backing array is shared; otherwise a fresh array
// with a shift axiom is introduced (slices carry no offset, so that element terms stay (select (s.arr x) i)).
func (vc *FnVC) subSlice(x, sort, lo, hi, mx string) string {
	if lo == "0" {
		return fmt.Sprintf("(mk-slice (s.arr %s) %s %s)", x, hi, mx)
	}
	arrSort := strings.TrimSuffix(strings.TrimPrefix(sort, "(Slice "), ")")
	a := vc.freshConst("shifted", "(Array Int "+arrSort+")")
	k := vc.newName("k")
	vc.decl = append(vc.decl, "")
	vc.emit("(assert (forall ((%s Int)) (! (= (select %s %s) (select (s.arr %s) (+ %s %s))) :pattern ((select %s %s)))))", k, a, k, x, k, lo, a, k)
	return fmt.Sprintf("(mk-slice %s (- %s %s) (- %s %s))", a, hi, lo, mx, lo)
}

// privateCells: escaping locals of the function under verification whose address is used only for loads/stores and as a
// binding of closures that are themselves only deferred (never passed on): no callee can reach them.
func (vc *FnVC) privateCells() []*ssa.Alloc {
	if vc.privCells != nil {
		return vc.privCells
	}
	vc.privCells = []*ssa.Alloc{}
	for _, b := range vc.fn.Blocks {
		for _, ins := range b.Instrs {
			a, ok := ins.(*ssa.Alloc)
			if !ok || !a.Heap {
				continue
			}
			private := true
			for _, r := range *a.Referrers() {
				switch u := r.(type) {
				case *ssa.Store:
					if u.Val == a {
						private = false
					}
				case *ssa.UnOp, *ssa.DebugRef:
				case *ssa.MakeClosure:
					for _, cr := range *u.Referrers() {
						if _, isDefer := cr.(*ssa.Defer); !isDefer {
							private = false
						}
					}
				default:
					private = false
				}
			}
			if private {
				vc.privCells = append(vc.privCells, a)
			}
		}
	}
	return vc.privCells
}
