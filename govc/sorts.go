package main

import (
	"fmt"
	"go/types"
	"sort"
	"strings"
	"sync/atomic"
)

const (
	jsightAPI    = "github.com/jsightapi/jsight-api-go-library/"
	jsightSchema = "github.com/jsightapi/jsight-schema-go-library"
)

func shortPath(p string) string {
	p = strings.ReplaceAll(p, jsightAPI, "")
	p = strings.ReplaceAll(p, jsightSchema+"/", "jschema/")
	p = strings.ReplaceAll(p, jsightSchema, "jschema")
	return p
}

// typeKey gives a stable textual key for a Go type.
func typeKey(t types.Type) string {
	switch u := t.(type) {
	case *types.Named:
		o := u.Obj()
		s := o.Name()
		if o.Pkg() != nil {
			s = shortPath(o.Pkg().Path()) + "." + s
		}
		if ta := u.TypeArgs(); ta != nil && ta.Len() > 0 {
			var as []string
			for i := 0; i < ta.Len(); i++ {
				as = append(as, typeKey(ta.At(i)))
			}
			s += "[" + strings.Join(as, ",") + "]"
		}
		return s
	case *types.Alias:
		return typeKey(types.Unalias(u))
	case *types.Pointer:
		return "*" + typeKey(u.Elem())
	case *types.Slice:
		return "[]" + typeKey(u.Elem())
	case *types.Array:
		return fmt.Sprintf("[%d]%s", u.Len(), typeKey(u.Elem()))
	case *types.Map:
		return "map[" + typeKey(u.Key()) + "]" + typeKey(u.Elem())
	case *types.Basic:
		if u.Kind() == types.Uint8 {
			return "byte"
		}
		return u.Name()
	case *types.Signature:
		return "func"
	case *types.Interface:
		if u.NumMethods() == 0 {
			return "any"
		}
		return "iface"
	case *types.Struct:
		var fs []string
		for i := 0; i < u.NumFields(); i++ {
			fs = append(fs, u.Field(i).Name()+" "+typeKey(u.Field(i).Type()))
		}
		return "struct{" + strings.Join(fs, ";") + "}"
	case *types.Tuple:
		var fs []string
		for i := 0; i < u.Len(); i++ {
			fs = append(fs, typeKey(u.At(i).Type()))
		}
		return "(" + strings.Join(fs, ",") + ")"
	case *types.Chan:
		return "chan " + typeKey(u.Elem())
	case *types.TypeParam:
		return "tparam:" + u.Obj().Name()
	}
	return t.String()
}

func q(s string) string { return "|" + strings.ReplaceAll(s, "|", "!") + "|" }

type structInfo struct {
	key    string
	sort   string
	ctor   string
	fields []string // selector function names
	ftypes []types.Type
	fnames []string
	opaque bool
	ghost  []GhostField
}

// Sorts manages SMT sort declarations for Go types.
type Sorts struct {
	decls   []string // in order
	done    map[string]string
	structs map[string]*structInfo
	db      *SpecDB
	useStr  bool
}

func NewSorts(db *SpecDB) *Sorts {
	s := &Sorts{done: map[string]string{}, structs: map[string]*structInfo{}, db: db}
	s.decls = append(s.decls,
		"(declare-datatypes ((Slice 1)) ((par (T) ((mk-slice (s.arr (Array Int T)) (s.len Int) (s.cap Int))))))",
		"(declare-datatypes ((Iface 0)) (((mk-iface (i.tid Int) (i.val Int)))))",
	)
	return s
}

func isSyncType(t types.Type) bool {
	if n, ok := t.(*types.Named); ok && n.Obj().Pkg() != nil && n.Obj().Pkg().Path() == "sync" {
		return true
	}
	return false
}

func isOpaqueStruct(t types.Type) bool {
	n, ok := t.(*types.Named)
	if !ok || n.Obj().Pkg() == nil {
		return false
	}
	p := n.Obj().Pkg().Path()
	if strings.HasPrefix(p, jsightAPI) || strings.HasPrefix(p, jsightSchema) {
		return false
	}
	return true
}

// SortOf returns the SMT sort for a Go type.
func (s *Sorts) SortOf(t types.Type) string {
	t = types.Unalias(t)
	if isSyncType(t) {
		return "Int"
	}
	switch u := t.Underlying().(type) {
	case *types.Basic:
		switch {
		case u.Info()&types.IsBoolean != 0:
			return "Bool"
		case u.Info()&types.IsInteger != 0:
			return "Int"
		case u.Info()&types.IsString != 0:
			s.useStr = true
			return "String"
		case u.Info()&types.IsFloat != 0:
			return "Real"
		case u.Kind() == types.UnsafePointer:
			return "Int"
		case u.Kind() == types.UntypedNil:
			return "Int"
		}
		return "Int"
	case *types.Pointer, *types.Map, *types.Chan, *types.Signature:
		return "Int"
	case *types.Slice:
		return "(Slice " + s.SortOf(u.Elem()) + ")"
	case *types.Array:
		return "(Array Int " + s.SortOf(u.Elem()) + ")"
	case *types.Interface:
		return "Iface"
	case *types.Struct:
		return s.StructOf(t).sort
	case *types.Tuple:
		return "Int"
	}
	return "Int"
}

func (s *Sorts) StructOf(t types.Type) *structInfo {
	t = types.Unalias(t)
	key := typeKey(t)
	if si, ok := s.structs[key]; ok {
		return si
	}
	st := t.Underlying().(*types.Struct)
	si := &structInfo{key: key, sort: q("S:" + key), ctor: q("mk:" + key)}
	s.structs[key] = si
	if isOpaqueStruct(t) || containsByValue(st, t, map[string]bool{}, 0) {
		si.opaque = true
		s.decls = append(s.decls, fmt.Sprintf("(declare-sort %s 0)", si.sort))
		return si
	}
	var fl []string
	for i := 0; i < st.NumFields(); i++ {
		f := st.Field(i)
		sel := q("f:" + key + "." + f.Name())
		si.fields = append(si.fields, sel)
		si.ftypes = append(si.ftypes, f.Type())
		si.fnames = append(si.fnames, f.Name())
		fl = append(fl, fmt.Sprintf("(%s %s)", sel, s.SortOf(f.Type())))
	}
	if len(fl) == 0 {
		fl = append(fl, fmt.Sprintf("(%s Int)", q("f:"+key+".$empty")))
	}
	s.decls = append(s.decls, fmt.Sprintf("(declare-datatypes ((%s 0)) (((%s %s))))", si.sort, si.ctor, strings.Join(fl, " ")))
	return si
}

// ZeroOf returns the SMT term for the zero value of a Go type.
func (s *Sorts) ZeroOf(t types.Type) string {
	t = types.Unalias(t)
	if isSyncType(t) {
		return "0"
	}
	switch u := t.Underlying().(type) {
	case *types.Basic:
		switch {
		case u.Info()&types.IsBoolean != 0:
			return "false"
		case u.Info()&types.IsString != 0:
			return "\"\""
		case u.Info()&types.IsFloat != 0:
			return "0.0"
		}
		return "0"
	case *types.Slice:
		es := s.SortOf(u.Elem())
		return fmt.Sprintf("(mk-slice ((as const (Array Int %s)) %s) 0 0)", es, s.ZeroOf(u.Elem()))
	case *types.Array:
		return fmt.Sprintf("((as const (Array Int %s)) %s)", s.SortOf(u.Elem()), s.ZeroOf(u.Elem()))
	case *types.Interface:
		return "(mk-iface 0 0)"
	case *types.Struct:
		si := s.StructOf(t)
		if si.opaque {
			z := q("zero:" + si.key)
			if s.done[z] == "" {
				s.done[z] = "1"
				s.decls = append(s.decls, fmt.Sprintf("(declare-const %s %s)", z, si.sort))
			}
			return z
		}
		var fs []string
		for _, ft := range si.ftypes {
			fs = append(fs, s.ZeroOf(ft))
		}
		if len(fs) == 0 {
			fs = append(fs, "0")
		}
		return "(" + si.ctor + " " + strings.Join(fs, " ") + ")"
	}
	return "0"
}

func intBounds(b *types.Basic) (lo, hi, mod string, ok bool) {
	switch b.Kind() {
	case types.Uint8:
		return "0", "255", "256", true
	case types.Int8:
		return "(- 128)", "127", "256", true
	case types.Uint16:
		return "0", "65535", "65536", true
	case types.Int16:
		return "(- 32768)", "32767", "65536", true
	case types.Uint32:
		return "0", "4294967295", "4294967296", true
	case types.Int32:
		return "(- 2147483648)", "2147483647", "4294967296", true
	case types.Uint, types.Uint64, types.Uintptr:
		return "0", "18446744073709551615", "18446744073709551616", true
	case types.Int, types.Int64:
		return "(- 9223372036854775808)", "9223372036854775807", "18446744073709551616", true
	}
	return "", "", "", false
}

func isUnsigned(b *types.Basic) bool { return b.Info()&types.IsUnsigned != 0 }

// RangeOf returns a Bool term constraining x to the values of type t ("true" if none).
func (s *Sorts) RangeOf(t types.Type, x string) string {
	return s.rangeOf(t, x, 0)
}

var rangeCounter int64

func (s *Sorts) rangeOf(t types.Type, x string, depth int) string {
	t = types.Unalias(t)
	if isSyncType(t) {
		return "true"
	}
	switch u := t.Underlying().(type) {
	case *types.Basic:
		if u.Info()&types.IsInteger != 0 {
			if lo, hi, _, ok := intBounds(u); ok {
				return fmt.Sprintf("(and (<= %s %s) (<= %s %s))", lo, x, x, hi)
			}
		}
	case *types.Slice:
		base := fmt.Sprintf("(and (<= 0 (s.len %s)) (<= (s.len %s) (s.cap %s)) (<= (s.cap %s) 1152921504606846976))", x, x, x, x)
		if depth < 0 {
			k := fmt.Sprintf("rk!%d", atomic.AddInt64(&rangeCounter, 1))
			el := fmt.Sprintf("(select (s.arr %s) %s)", x, k)
			if er := s.rangeOf(u.Elem(), el, depth+1); er != "true" {
				return fmt.Sprintf("(and %s (forall ((%s Int)) (! %s :pattern (%s))))", base, k, er, el)
			}
		}
		return base
	case *types.Pointer, *types.Map, *types.Signature, *types.Chan:
		return fmt.Sprintf("(>= %s 0)", x)
	case *types.Struct:
		si := s.StructOf(t)
		if si.opaque || depth > 2 {
			return "true"
		}
		var parts []string
		for i, sel := range si.fields {
			if r := s.rangeOf(si.ftypes[i], fmt.Sprintf("(%s %s)", sel, x), depth+1); r != "true" {
				parts = append(parts, r)
			}
		}
		if len(parts) == 0 {
			return "true"
		}
		return "(and " + strings.Join(parts, " ") + ")"
	}
	return "true"
}

// wrapInt wraps a mathematical integer term to the machine type.
func wrapInt(t types.Type, x string) string {
	b, ok := t.Underlying().(*types.Basic)
	if !ok {
		return x
	}
	lo, hi, mod, ok := intBounds(b)
	if !ok {
		return x
	}
	_ = hi
	if isUnsigned(b) {
		return fmt.Sprintf("(mod %s %s)", x, mod)
	}
	// signed: ((x - lo) mod m) + lo
	return fmt.Sprintf("(+ (mod (- %s %s) %s) %s)", x, lo, mod, lo)
}

// wrapInt1 wraps a term known to be at most one modulus out of range (result of a single + or -).
func wrapInt1(t types.Type, x string) string {
	b, ok := t.Underlying().(*types.Basic)
	if !ok {
		return x
	}
	lo, hi, mod, ok := intBounds(b)
	if !ok {
		return x
	}
	return fmt.Sprintf("(let ((w!0 %s)) (ite (< w!0 %s) (+ w!0 %s) (ite (> w!0 %s) (- w!0 %s) w!0)))", x, lo, mod, hi, mod)
}

func sortedKeys[M ~map[string]V, V any](m M) []string {
	ks := make([]string, 0, len(m))
	for k := range m {
		ks = append(ks, k)
	}
	sort.Strings(ks)
	return ks
}

// containsByValue reports whether struct type target occurs (by value, through slices/arrays/maps/structs) inside st:
// such recursive value types are modelled as opaque sorts.
func containsByValue(st *types.Struct, target types.Type, seen map[string]bool, depth int) bool {
	if depth > 12 {
		return true
	}
	for i := 0; i < st.NumFields(); i++ {
		if typeMentions(st.Field(i).Type(), target, seen, depth) {
			return true
		}
	}
	return false
}

func typeMentions(t, target types.Type, seen map[string]bool, depth int) bool {
	t = types.Unalias(t)
	if isSyncType(t) {
		return false
	}
	switch u := t.Underlying().(type) {
	case *types.Slice:
		return typeMentions(u.Elem(), target, seen, depth+1)
	case *types.Array:
		return typeMentions(u.Elem(), target, seen, depth+1)
	case *types.Struct:
		if types.Identical(t, target) {
			return true
		}
		k := typeKey(t)
		if seen[k] {
			return false
		}
		seen[k] = true
		if isOpaqueStruct(t) {
			return false
		}
		return containsByValue(u, target, seen, depth+1)
	}
	return false
}
