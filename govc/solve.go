package main

import (
	"bytes"
	"context"
	"fmt"
	"os"
	"os/exec"
	"path/filepath"
	"strings"
	"time"
)

type solverRun struct {
	solver  string
	results map[int]string // obligation idx -> sat/unsat/unknown
	smoke   string
	errs    []string
	secs    float64
	times   map[int]float64
	covers  map[int]string
	exit    string
}

var solverCmds = map[string]func(file string, perMs int) []string{
	"z3new": func(f string, ms int) []string { return []string{"z3-new", "-smt2", fmt.Sprintf("-t:%d", ms), f} },
	"z3":    func(f string, ms int) []string { return []string{"z3", "-smt2", fmt.Sprintf("-t:%d", ms), f} },
	"cvc5": func(f string, ms int) []string {
		return []string{"cvc5", "--lang=smt2", "--incremental", "--strings-exp", fmt.Sprintf("--tlimit-per=%d", ms), f}
	},
}

func runSolver(solver, file string, perMs int, totalSec int) *solverRun {
	r := &solverRun{solver: solver, results: map[int]string{}, times: map[int]float64{}, covers: map[int]string{}}
	args := solverCmds[solver](file, perMs)
	ctx, cancel := context.WithTimeout(context.Background(), time.Duration(totalSec)*time.Second)
	defer cancel()
	cmd := exec.CommandContext(ctx, args[0], args[1:]...)
	var out bytes.Buffer
	cmd.Stdout = &out
	cmd.Stderr = &out
	t0 := time.Now()
	_ = cmd.Run()
	r.secs = time.Since(t0).Seconds()
	cur := -2 // -1 smoke
	cov := -1
	for _, line := range strings.Split(out.String(), "\n") {
		line = strings.Trim(strings.TrimSpace(line), "\"")
		switch {
		case strings.HasPrefix(line, "@cover "):
			fmt.Sscanf(line, "@cover %d", &cov)
			cur = -3
		case strings.HasPrefix(line, "@obl "):
			fmt.Sscanf(line, "@obl %d", &cur)
		case line == "@smoke":
			cur = -1
		case line == "@exit":
			cur = -4
		case line == "sat" || line == "unsat" || line == "unknown" || line == "timeout":
			if cur == -4 {
				r.exit = line
			} else if cur == -3 {
				r.covers[cov] = line
			} else if cur == -1 {
				r.smoke = line
			} else if cur >= 0 {
				r.results[cur] = line
			}
			cur = -2
		case strings.HasPrefix(line, "(error"):
			r.errs = append(r.errs, line)
		}
	}
	return r
}

type FnResult struct {
	VC       *FnVC
	Runs     []*solverRun
	Secs     float64
	File     string
	Smoke    string
	Exit     string
	Disagree []string
}

// Solve discharges all obligations of vc. Solvers are tried in order; later ones only if something is left undecided
// (or always, when agree is set).
func (e *Engine) Solve(vc *FnVC, dir string, perMs int, solvers []string, agree bool) *FnResult {
	res := &FnResult{VC: vc}
	if len(vc.obls) == 0 {
		return res
	}
	if vc.spec != nil && vc.spec.Prefer != "" {
		// the contract names the solver that decides this function's obligations robustly (e.g. cvc5 for nested quantifiers)
		ord := []string{vc.spec.Prefer}
		for _, s := range solvers {
			if s != vc.spec.Prefer {
				ord = append(ord, s)
			}
		}
		solvers = ord
	}
	script := vc.Script(perMs, false)
	file := filepath.Join(dir, sanitize(vc.key)+".smt2")
	z3script := strings.Replace(strings.Replace(script, ";;SMOKE-BEGIN", "(set-option :timeout 1500)", 1), ";;SMOKE-END", fmt.Sprintf("(set-option :timeout %d)", perMs), 1)
	cvscript := strings.Replace(strings.Replace(script, ";;SMOKE-BEGIN", "(set-option :tlimit-per 1500)", 1), ";;SMOKE-END", fmt.Sprintf("(set-option :tlimit-per %d)", perMs), 1)
	z3script = strings.Replace(strings.Replace(z3script, ";;EXIT-BEGIN", "(set-option :timeout 300)", 1), ";;EXIT-END", fmt.Sprintf("(set-option :timeout %d)", perMs), 1)
	cvscript = strings.Replace(strings.Replace(cvscript, ";;EXIT-BEGIN", "(set-option :tlimit-per 300)", 1), ";;EXIT-END", fmt.Sprintf("(set-option :tlimit-per %d)", perMs), 1)
	if err := os.WriteFile(file, []byte(z3script), 0o644); err != nil {
		panic(err)
	}
	os.WriteFile(file+".cvc5", []byte(cvscript), 0o644)
	res.File = file
	t0 := time.Now()
	total := perMs/1000*len(vc.obls) + 30
	if total > 900 {
		total = 900
	}
	for _, s := range solvers {
		undecided := false
		for _, o := range vc.obls {
			if o.Result != "unsat" && o.Result != "sat" && o.Unclaimed == "" {
				undecided = true
			}
		}
		if !undecided && !agree {
			break
		}
		src := z3script
		if s == "cvc5" {
			src = cvscript
		}
		type pass struct {
			file  string
			ms    int
			total int
		}
		var passes []pass
		switch {
		case len(res.Runs) == 0:
			passes = []pass{{file, perMs, total}}
			if s == "cvc5" {
				passes[0].file = file + ".cvc5"
			}
		default:
			if agree {
				// cross-check of everything, with a short budget: an undecided cross-check says nothing
				cross := perMs
				if cross > 3000 {
					cross = 3000
				}
				ct := cross/1000*len(vc.obls) + 30
				if ct > 180 {
					ct = 180
				}
				f := file + "." + s + ".cross"
				os.WriteFile(f, []byte(strings.ReplaceAll(strings.ReplaceAll(src, fmt.Sprintf("(set-option :timeout %d)", perMs), fmt.Sprintf("(set-option :timeout %d)", cross)), fmt.Sprintf("(set-option :tlimit-per %d)", perMs), fmt.Sprintf("(set-option :tlimit-per %d)", cross))), 0o644)
				passes = append(passes, pass{f, cross, ct})
			}
			if undecided {
				// the obligations that are still undecided, with the full budget
				keep := map[int]bool{}
				for _, o := range vc.obls {
					if o.Result != "unsat" && o.Result != "sat" && o.Unclaimed == "" {
						keep[o.idx] = true
					}
				}
				f := file + "." + s + ".rest"
				os.WriteFile(f, []byte(filterObligations(src, keep)), 0o644)
				rt := perMs/1000*len(keep) + 30
				if rt > 900 {
					rt = 900
				}
				passes = append(passes, pass{f, perMs, rt})
			}
		}
		for _, ps := range passes {
			run := runSolver(s, ps.file, ps.ms, ps.total)
			res.Runs = append(res.Runs, run)
			if run.smoke != "" && (res.Smoke == "" || res.Smoke == "unknown") {
				res.Smoke = run.smoke
			}
			if run.exit != "" && (res.Exit == "" || res.Exit == "unknown" || res.Exit == "timeout") {
				res.Exit = run.exit
			}
			for _, o := range vc.obls {
				if o.Unclaimed != "" {
					continue
				}
				r, ok := run.results[o.idx]
				if !ok {
					r = "timeout"
				}
				switch {
				case r == "unsat" && o.Result == "sat", r == "sat" && o.Result == "unsat":
					res.Disagree = append(res.Disagree, fmt.Sprintf("%s: %s says %s, %s says %s", o.Name, o.Solver, o.Result, s, r))
				case r == "unsat" || r == "sat":
					if o.Result != "unsat" && o.Result != "sat" {
						o.Result, o.Solver = r, s
					} else if agree && !strings.Contains("+"+o.Solver+"+", "+"+s+"+") {
						o.Solver += "+" + s
					}
				default:
					if o.Result == "" {
						o.Result, o.Solver = r, s
					}
				}
			}
		}
	}
	res.Secs = time.Since(t0).Seconds()
	return res
}

func sanitize(s string) string {
	var sb strings.Builder
	for _, c := range s {
		if c >= 'a' && c <= 'z' || c >= 'A' && c <= 'Z' || c >= '0' && c <= '9' || c == '.' || c == '_' || c == '-' {
			sb.WriteRune(c)
		} else {
			sb.WriteByte('_')
		}
	}
	return sb.String()
}

// filterObligations removes the push/assert/check-sat/pop blocks of obligations that need no further checking
// (the assumption following each block stays).
func filterObligations(script string, keep map[int]bool) string {
	lines := strings.Split(script, "\n")
	var out []string
	for i := 0; i < len(lines); i++ {
		if lines[i] == "(push 1)" && i+4 < len(lines) && strings.HasPrefix(lines[i+2], "(echo \"@obl ") && lines[i+4] == "(pop 1)" {
			var idx int
			fmt.Sscanf(lines[i+2], "(echo \"@obl %d\")", &idx)
			if !keep[idx] {
				i += 4
				continue
			}
		}
		out = append(out, lines[i])
	}
	return strings.Join(out, "\n")
}
