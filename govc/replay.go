package main

// Counterexample extraction and replay on the real code (go test -overlay; nothing is written into /repo).

import (
	"bytes"
	"context"
	"encoding/json"
	"fmt"
	"go/types"
	"os"
	"os/exec"
	"path/filepath"
	"regexp"
	"strconv"
	"strings"
	"time"

	"golang.org/x/tools/go/ssa"
)

type ReplayFile struct {
	Property   string            `json:"property"`
	Obligation string            `json:"obligation"`
	Kind       string            `json:"kind"`
	Function   string            `json:"function"`
	Pos        string            `json:"pos"`
	Result     string            `json:"solver_result"`
	Solver     string            `json:"solver"`
	Model      map[string]string `json:"model,omitempty"`
	ModelNote  string            `json:"model_note,omitempty"`
	Package    string            `json:"package,omitempty"`
	TestSource string            `json:"test_source,omitempty"`
	Output     string            `json:"replay_output,omitempty"`
	Confirmed  bool              `json:"confirmed"`
	Expect     string            `json:"expect,omitempty"`
	SolverOut  string            `json:"solver_output,omitempty"`
}

var pairReplayCache = map[string]string{}

var safetyKinds = map[string]bool{"index": true, "slice": true, "nil-deref": true, "panic": true, "type-assert": true, "div-zero": true, "nil-map": true, "makeslice": true}

func (cc *checkCtx) findVC(o *Obligation) *FnVC {
	for _, r := range cc.results {
		for _, x := range r.VC.obls {
			if x == o {
				return r.VC
			}
		}
	}
	return nil
}

// replay tries to obtain a model for the failing obligation and to confirm it on the real code.
func (cc *checkCtx) replay(o *Obligation) (string, bool) {
	rf := &ReplayFile{Property: cc.prop, Obligation: o.Name, Kind: o.Kind, Function: o.Fn, Pos: o.Pos, Result: o.Result, Solver: o.Solver}
	path := filepath.Join(cc.e.verif, "replay", cc.prop+"-"+sanitize(o.Name)+".json")
	if len(path) > 200 {
		path = path[:190] + ".json"
	}
	vc := cc.findVC(o)
	if vc != nil && vc.pair != nil {
		rf.Package = "./" + vc.fn.Pkg.Pkg.Name()
		rf.TestSource = pairReplaySource(vc.fn.Name(), vc.pair.cA, vc.pair.cB)
		if vc.pair.cross != nil {
			rf.TestSource = crossReplaySource(vc.fn.Name(), vc.pair.fnB.Name(), vc.pair.cross.Src)
		}
		rf.ModelNote = "two-run lemma: replayed by a differential test of the real state function on every reached dispatch in the fixture documents (and their CR / tab rewritings)"
		rf.Expect = "REPLAY-CONFIRMED"
		if out, ok := pairReplayCache[vc.key]; ok {
			rf.Output = out
		} else {
			rf.Output = runReplayTest(cc.e.repo, rf.Package, rf.TestSource, cc.dir)
			pairReplayCache[vc.key] = rf.Output
		}
		rf.Confirmed = strings.Contains(rf.Output, "REPLAY-CONFIRMED")
	} else if vc != nil {
		func() {
			defer func() {
				if r := recover(); r != nil {
					rf.ModelNote = fmt.Sprintf("replay harness failed for this obligation (%v); no-failing-input-found", r)
					rf.Confirmed = false
				}
			}()
			cc.modelAndTest(vc, o, rf)
		}()
	} else {
		rf.ModelNote = "obligation is not a per-function VC (lemma / scan / bounded decider); see solver_output"
		rf.SolverOut = o.Desc
		if o.Kind == "bounded" && o.witness != "" {
			rf.ModelNote = "failing inputs found by exhaustive execution of the real function (bounded decider)"
			rf.Confirmed = true
		}
	}
	data, _ := json.MarshalIndent(rf, "", " ")
	os.WriteFile(path, data, 0o644)
	return path, rf.Confirmed
}

type modelQuery struct {
	terms []string
}

func (cc *checkCtx) modelAndTest(vc *FnVC, o *Obligation, rf *ReplayFile) {
	fn := vc.fn
	if fn.Signature.Recv() != nil || true {
		// ok
	}
	gen := &litGen{vc: vc, e: cc.e, pkg: fn.Pkg}
	for _, p := range fn.Params {
		gen.collect(vc.top.vals[p].t, p.Type(), 0)
	}
	if gen.fail != "" {
		rf.ModelNote = "no replay harness for this signature: " + gen.fail
	}
	if o.Kind == "ensures" && len(vc.retTerms) == 1 {
		if _, ok := fn.Signature.Results().At(0).Type().Underlying().(*types.Basic); ok {
			gen.q(vc.retTerms[0])
		}
	}
	bounds := []int{8, 40}
	if o.Result != "sat" {
		bounds = []int{8} // no solver found a model of the full query: one cheap attempt on the reduced context
	}
	for _, bound := range bounds {
		script := vc.modelScript(o, gen.queries, gen.lens, bound)
		file := filepath.Join(cc.dir, "model.smt2")
		os.WriteFile(file, []byte(script), 0o644)
		out := runRaw([]string{"z3-new", "-smt2", "-T:20", file}, 25)
		rf.SolverOut = truncate(out, 4000)
		if !strings.HasPrefix(strings.TrimSpace(out), "sat") {
			out2 := runRaw([]string{"cvc5", "--produce-models", "--tlimit=20000", file}, 25)
			if strings.HasPrefix(strings.TrimSpace(out2), "sat") {
				out = out2
				rf.SolverOut = truncate(out, 4000)
			} else {
				continue
			}
		}
		vals := parseGetValue(out)
		if len(vals) == 0 {
			continue
		}
		rf.Model = map[string]string{}
		for i, qy := range gen.queries {
			if i < len(vals) {
				gen.values[qy] = vals[i]
				if len(rf.Model) < 60 {
					rf.Model[qy] = vals[i]
				}
			}
		}
		rf.ModelNote = "candidate model obtained with quantified hypotheses dropped (reduced context); it counts only if the replay confirms it"
		break
	}
	if rf.Model == nil {
		if rf.ModelNote == "" {
			rf.ModelNote = "no model: solvers returned unknown/timeout on the reduced query"
		}
		return
	}
	if gen.fail != "" {
		return
	}
	// build the test
	var args []string
	for _, p := range fn.Params {
		args = append(args, gen.literal(vc.top.vals[p].t, p.Type(), 0))
	}
	if gen.fail != "" {
		rf.ModelNote += "; literal generation failed: " + gen.fail
		return
	}
	call := ""
	if fn.Signature.Recv() != nil {
		call = fmt.Sprintf("(%s).%s(%s)", args[0], fn.Name(), strings.Join(args[1:], ", "))
	} else {
		call = fmt.Sprintf("%s(%s)", fn.Name(), strings.Join(args, ", "))
	}
	nres := fn.Signature.Results().Len()
	var sb strings.Builder
	fmt.Fprintf(&sb, "package %s\n\nimport (\n\t\"fmt\"\n\t\"testing\"\n", fn.Pkg.Pkg.Name())
	for _, imp := range gen.imports() {
		fmt.Fprintf(&sb, "\t%s\n", imp)
	}
	sb.WriteString(")\n\nfunc TestReplay(t *testing.T) {\n\tdefer func() {\n\t\tif r := recover(); r != nil {\n\t\t\tfmt.Printf(\"REPLAY-PANIC: %v\\n\", r)\n\t\t}\n\t}()\n")
	switch nres {
	case 0:
		fmt.Fprintf(&sb, "\t%s\n\tfmt.Println(\"REPLAY-RESULT:\")\n", call)
	case 1:
		fmt.Fprintf(&sb, "\tr0 := %s\n\tfmt.Printf(\"REPLAY-RESULT: %%v\\n\", r0)\n", call)
	default:
		var rs []string
		for i := 0; i < nres; i++ {
			rs = append(rs, fmt.Sprintf("r%d", i))
		}
		fmt.Fprintf(&sb, "\t%s := %s\n\tfmt.Printf(\"REPLAY-RESULT: %s\\n\", %s)\n", strings.Join(rs, ", "), call, strings.Repeat("%v ", nres), strings.Join(rs, ", "))
	}
	sb.WriteString("}\n")
	rf.TestSource = sb.String()
	rf.Package = strings.TrimPrefix(fn.Pkg.Pkg.Path(), strings.TrimSuffix(jsightAPI, "/"))
	rf.Package = "." + rf.Package
	if safetyKinds[o.Kind] {
		rf.Expect = "panic"
	} else {
		rf.Expect = "result-as-model"
	}
	rf.Output = runReplayTest(cc.e.repo, rf.Package, rf.TestSource, cc.dir)
	switch {
	case rf.Expect == "panic":
		rf.Confirmed = strings.Contains(rf.Output, "REPLAY-PANIC:")
	default:
		// confirmed when the real function returns exactly what the model predicts (and the solver says that value violates the clause)
		if o.Kind == "ensures" && nres == 1 && o.Result == "sat" && strings.Contains(rf.Output, "REPLAY-RESULT:") {
			if want, ok := gen.retValue(vc, o); ok {
				got := strings.TrimSpace(strings.SplitN(strings.SplitN(rf.Output, "REPLAY-RESULT:", 2)[1], "\n", 2)[0])
				rf.Model["ret (model)"] = want
				rf.Confirmed = got == want
			}
		}
		if strings.Contains(rf.Output, "REPLAY-PANIC:") {
			rf.Confirmed = true
		}
	}
}

func truncate(s string, n int) string {
	if len(s) > n {
		return s[:n] + "...[truncated]"
	}
	return s
}

func runRaw(args []string, sec int) string {
	ctx, cancel := context.WithTimeout(context.Background(), time.Duration(sec)*time.Second)
	defer cancel()
	cmd := exec.CommandContext(ctx, args[0], args[1:]...)
	var out bytes.Buffer
	cmd.Stdout = &out
	cmd.Stderr = &out
	_ = cmd.Run()
	return out.String()
}

func runReplayTest(repo, pkg, src, dir string) string {
	tdir, _ := os.MkdirTemp("", "govc-replay-")
	defer os.RemoveAll(tdir)
	tf := filepath.Join(tdir, "zz_replay_test.go")
	os.WriteFile(tf, []byte(src), 0o644)
	target := filepath.Join(repo, strings.TrimPrefix(pkg, "./"), "zz_replay_test.go")
	ov, _ := json.Marshal(map[string]any{"Replace": map[string]string{target: tf}})
	ovf := filepath.Join(tdir, "ov.json")
	os.WriteFile(ovf, ov, 0o644)
	ctx, cancel := context.WithTimeout(context.Background(), 180*time.Second)
	defer cancel()
	cmd := exec.CommandContext(ctx, "bash", "-c", fmt.Sprintf("ulimit -v 8000000; cd %q && go test -overlay %q -vet=off -count=1 -timeout 60s -run '^TestReplay$' -v %s 2>&1 | tail -40", repo, ovf, pkg))
	cmd.Env = append(os.Environ(), "GOFLAGS=-mod=mod", "GOPROXY=off", "GOSUMDB=off", "GOTOOLCHAIN=local")
	out, _ := cmd.CombinedOutput()
	return truncate(string(out), 6000)
}

// modelScript builds a reduced-context query for one obligation.
func (vc *FnVC) modelScript(o *Obligation, queries []string, lens []string, bound int) string {
	full := vc.Script(0, true)
	lines := strings.Split(full, "\n")
	var out []string
	marker := fmt.Sprintf("(echo \"@obl %d\")", o.idx)
	// find the line index of the marker
	end := -1
	for i, l := range lines {
		if l == marker {
			end = i
			break
		}
	}
	if end < 0 {
		return ""
	}
	depth := 0
	for i := 0; i < end-2; i++ { // stop before this obligation's "(push 1)" and assert
		l := lines[i]
		switch {
		case l == "(push 1)":
			depth++
			continue
		case l == "(pop 1)":
			depth--
			continue
		}
		if depth > 0 || strings.HasPrefix(l, "(check-sat)") || strings.HasPrefix(l, "(echo") {
			continue
		}
		if strings.HasPrefix(l, "(assert") && (strings.Contains(l, "(forall ") || strings.Contains(l, "(exists ")) {
			continue
		}
		out = append(out, l)
	}
	out = append(out, fmt.Sprintf("(assert (and %s (not %s)))", o.guard, o.cond))
	for _, ln := range lens {
		out = append(out, fmt.Sprintf("(assert (<= %s %d))", ln, bound))
	}
	out = append(out, "(check-sat)")
	if len(queries) > 0 {
		out = append(out, "(get-value ("+strings.Join(queries, " ")+"))")
	}
	return strings.Join(out, "\n") + "\n"
}

// parseGetValue parses "((t v) (t v) ...)" into the list of values, in order.
func parseGetValue(out string) []string {
	i := strings.Index(out, "((")
	if i < 0 {
		return nil
	}
	s := out[i:]
	// s-expression reader
	pos := 0
	var read func() any
	read = func() any {
		for pos < len(s) && (s[pos] == ' ' || s[pos] == '\n' || s[pos] == '\t') {
			pos++
		}
		if pos >= len(s) {
			return nil
		}
		if s[pos] == '(' {
			pos++
			var l []any
			for {
				for pos < len(s) && (s[pos] == ' ' || s[pos] == '\n' || s[pos] == '\t') {
					pos++
				}
				if pos >= len(s) {
					return l
				}
				if s[pos] == ')' {
					pos++
					return l
				}
				l = append(l, read())
			}
		}
		if s[pos] == '"' {
			j := pos + 1
			for j < len(s) {
				if s[j] == '"' {
					if j+1 < len(s) && s[j+1] == '"' {
						j += 2
						continue
					}
					break
				}
				j++
			}
			t := s[pos : j+1]
			pos = j + 1
			return t
		}
		if s[pos] == '|' {
			j := strings.Index(s[pos+1:], "|")
			t := s[pos : pos+j+2]
			pos += j + 2
			return t
		}
		j := pos
		for j < len(s) && !strings.ContainsRune(" \n\t()", rune(s[j])) {
			j++
		}
		t := s[pos:j]
		pos = j
		return t
	}
	top, ok := read().([]any)
	if !ok {
		return nil
	}
	var vals []string
	for _, pr := range top {
		p, ok := pr.([]any)
		if !ok || len(p) != 2 {
			return vals
		}
		vals = append(vals, sexprString(p[1]))
	}
	return vals
}

func sexprString(x any) string {
	switch v := x.(type) {
	case string:
		return v
	case []any:
		var ps []string
		for _, e := range v {
			ps = append(ps, sexprString(e))
		}
		return "(" + strings.Join(ps, " ") + ")"
	}
	return ""
}

func smtIntValue(s string) (string, bool) {
	s = strings.TrimSpace(s)
	if m := regexp.MustCompile(`^\(- (\d+)\)$`).FindStringSubmatch(s); m != nil {
		return "-" + m[1], true
	}
	if regexp.MustCompile(`^\d+$`).MatchString(s) {
		return s, true
	}
	return "", false
}

// litGen turns model values into Go literals for the replay test.
type litGen struct {
	vc      *FnVC
	e       *Engine
	pkg     *ssa.Package
	queries []string
	lens    []string
	values  map[string]string
	fail    string
	imps    map[string]string
	seen    map[string]bool
}

const maxElems = 40

func (g *litGen) q(t string) {
	if g.values == nil {
		g.values = map[string]string{}
		g.seen = map[string]bool{}
	}
	if !g.seen[t] {
		g.seen[t] = true
		g.queries = append(g.queries, t)
	}
}

func (g *litGen) heap0(name string) string { return g.vc.hget(g.vc.old, name) }

// collect registers the get-value queries needed to rebuild a Go value of type t from SMT term.
func (g *litGen) collect(term string, t types.Type, depth int) {
	if g.values == nil {
		g.values = map[string]string{}
		g.seen = map[string]bool{}
	}
	if depth > 3 {
		return
	}
	t = types.Unalias(t)
	switch u := t.Underlying().(type) {
	case *types.Basic:
		g.q(term)
	case *types.Slice:
		g.q(fmt.Sprintf("(s.len %s)", term))
		g.lens = append(g.lens, fmt.Sprintf("(s.len %s)", term))
		for k := 0; k < maxElems; k++ {
			g.collect(fmt.Sprintf("(select (s.arr %s) %d)", term, k), u.Elem(), depth+1)
		}
	case *types.Pointer:
		g.q(term)
		if st, ok := u.Elem().Underlying().(*types.Struct); ok && !isSyncType(u.Elem()) {
			si := g.vc.sorts.StructOf(u.Elem())
			if si.opaque {
				return
			}
			for i := 0; i < st.NumFields(); i++ {
				h, ft := g.vc.fieldHeap(u.Elem(), i)
				if depth+1 <= 2 {
					g.collect(fmt.Sprintf("(select %s %s)", g.heap0(h), term), ft, depth+1)
				}
			}
		}
	case *types.Struct:
		si := g.vc.sorts.StructOf(t)
		if si.opaque {
			return
		}
		for i, sel := range si.fields {
			g.collect(fmt.Sprintf("(%s %s)", sel, term), si.ftypes[i], depth+1)
		}
	case *types.Signature:
		g.q(term)
	case *types.Interface:
		g.q(fmt.Sprintf("(i.tid %s)", term))
	case *types.Map:
		g.q(term)
	default:
		g.fail = "parameter type " + typeKey(t)
	}
}

func (g *litGen) imports() []string {
	var out []string
	for _, k := range sortedKeys(g.imps) {
		out = append(out, g.imps[k])
	}
	return out
}

func (g *litGen) addImport(path string) {
	if g.imps == nil {
		g.imps = map[string]string{}
	}
	g.imps[path] = strconv.Quote(path)
}

func (g *litGen) typeExpr(t types.Type) string {
	return types.TypeString(t, func(p *types.Package) string {
		if p == g.pkg.Pkg {
			return ""
		}
		g.addImport(p.Path())
		return p.Name()
	})
}

func (g *litGen) val(term string) string { return g.values[term] }

func (g *litGen) literal(term string, t types.Type, depth int) string {
	t = types.Unalias(t)
	switch u := t.Underlying().(type) {
	case *types.Basic:
		v := g.val(term)
		switch {
		case u.Info()&types.IsBoolean != 0:
			return fmt.Sprintf("%s(%s)", g.typeExpr(t), v)
		case u.Info()&types.IsInteger != 0:
			iv, ok := smtIntValue(v)
			if !ok {
				iv = "0"
			}
			return fmt.Sprintf("%s(%s)", g.typeExpr(t), iv)
		case u.Info()&types.IsString != 0:
			return fmt.Sprintf("%s(%s)", g.typeExpr(t), smtStringToGo(v))
		}
	case *types.Slice:
		n, _ := strconv.Atoi(g.val(fmt.Sprintf("(s.len %s)", term)))
		if n > maxElems {
			g.fail = "model slice too long"
			n = 0
		}
		var es []string
		for k := 0; k < n; k++ {
			es = append(es, g.literal(fmt.Sprintf("(select (s.arr %s) %d)", term, k), u.Elem(), depth+1))
		}
		return fmt.Sprintf("%s{%s}", g.typeExpr(t), strings.Join(es, ", "))
	case *types.Pointer:
		if g.val(term) == "0" {
			return "nil"
		}
		el := u.Elem()
		if typeKey(el) == "jschema/fs.File" {
			g.addImport(jsightSchema + "/fs")
			hn, _ := g.vc.fieldHeap(el, 0)
			hc, ct := g.vc.fieldHeap(el, 1)
			name := g.literal(fmt.Sprintf("(select %s %s)", g.heap0(hn), term), types.Typ[types.String], depth+1)
			content := g.literal(fmt.Sprintf("(select %s %s)", g.heap0(hc), term), ct, depth+1)
			return fmt.Sprintf("fs.NewFile(%s, []byte(%s))", name, content)
		}
		if st, ok := el.Underlying().(*types.Struct); ok && depth < 2 {
			si := g.vc.sorts.StructOf(el)
			if si.opaque {
				return "nil"
			}
			if n, ok := el.(*types.Named); ok && n.Obj().Pkg() != g.pkg.Pkg {
				g.fail = "pointer to struct of another package: " + typeKey(el)
				return "nil"
			}
			var fs []string
			for i := 0; i < st.NumFields(); i++ {
				if isSyncType(st.Field(i).Type()) {
					continue
				}
				h, ft := g.vc.fieldHeap(el, i)
				fs = append(fs, fmt.Sprintf("%s: %s", st.Field(i).Name(), g.literal(fmt.Sprintf("(select %s %s)", g.heap0(h), term), ft, depth+1)))
			}
			return fmt.Sprintf("&%s{%s}", g.typeExpr(el), strings.Join(fs, ", "))
		}
		return "nil"
	case *types.Struct:
		si := g.vc.sorts.StructOf(t)
		if si.opaque {
			return g.typeExpr(t) + "{}"
		}
		if n, ok := t.(*types.Named); ok && n.Obj().Pkg() != g.pkg.Pkg {
			g.fail = "struct of another package: " + typeKey(t)
			return g.typeExpr(t) + "{}"
		}
		var fs []string
		for i, sel := range si.fields {
			fs = append(fs, fmt.Sprintf("%s: %s", si.fnames[i], g.literal(fmt.Sprintf("(%s %s)", sel, term), si.ftypes[i], depth+1)))
		}
		return fmt.Sprintf("%s{%s}", g.typeExpr(t), strings.Join(fs, ", "))
	case *types.Signature:
		v := g.val(term)
		id, _ := strconv.Atoi(v)
		if id == 0 {
			return "nil"
		}
		for f, fid := range g.e.fnIDs {
			if fid == id && f.Pkg == g.pkg && f.Parent() == nil && f.Signature.Recv() == nil {
				return f.Name()
			}
		}
		g.fail = "model function value is not a top-level function of the package"
		return "nil"
	case *types.Interface, *types.Map:
		return "nil"
	}
	g.fail = "literal of type " + typeKey(t)
	return "nil"
}

func smtStringToGo(v string) string {
	v = strings.TrimSpace(v)
	if len(v) >= 2 && v[0] == '"' {
		v = v[1 : len(v)-1]
	}
	v = strings.ReplaceAll(v, "\"\"", "\"")
	// \u{XX} escapes
	re := regexp.MustCompile(`\\u\{([0-9a-fA-F]+)\}`)
	var out []byte
	last := 0
	for _, m := range re.FindAllStringSubmatchIndex(v, -1) {
		out = append(out, v[last:m[0]]...)
		n, _ := strconv.ParseInt(v[m[2]:m[3]], 16, 32)
		out = append(out, byte(n))
		last = m[1]
	}
	out = append(out, v[last:]...)
	return strconv.Quote(string(out))
}

// retValue asks for the model's value of the function result (scalar results only).
func (g *litGen) retValue(vc *FnVC, o *Obligation) (string, bool) {
	if len(vc.retTerms) != 1 {
		return "", false
	}
	v, ok := g.values[vc.retTerms[0]]
	if !ok {
		return "", false
	}
	if iv, ok := smtIntValue(v); ok {
		return iv, true
	}
	if v == "true" || v == "false" {
		return v, true
	}
	return "", false
}

// cmdReplay re-runs a stored counterexample against the real code.
func cmdReplay(args []string) {
	if len(args) < 1 {
		fmt.Fprintln(os.Stderr, "usage: govc replay <file>")
		os.Exit(2)
	}
	data, err := os.ReadFile(args[0])
	if err != nil {
		fmt.Fprintln(os.Stderr, err)
		os.Exit(2)
	}
	var rf ReplayFile
	if err := json.Unmarshal(data, &rf); err != nil {
		fmt.Fprintln(os.Stderr, err)
		os.Exit(2)
	}
	fmt.Printf("obligation: %s\nfunction:   %s\nsolver:     %s (%s)\n", rf.Obligation, rf.Function, rf.Result, rf.Solver)
	if rf.TestSource == "" {
		fmt.Println("no executable counterexample stored (no-failing-input-found):", rf.ModelNote)
		fmt.Println(rf.SolverOut)
		os.Exit(1)
	}
	dir, _ := os.MkdirTemp("", "govc-replay-")
	defer os.RemoveAll(dir)
	out := runReplayTest(envOr("GOVC_REPO", "/repo"), rf.Package, rf.TestSource, dir)
	fmt.Print(out)
	if rf.Expect == "panic" && strings.Contains(out, "REPLAY-PANIC:") {
		fmt.Println("reproduced: the real code panics on the model input")
		os.Exit(1)
	}
	fmt.Println("expected:", rf.Expect, "model:", rf.Model["ret (model)"])
	os.Exit(1)
}
