package main

// Contract expression language: tokenizer + Pratt parser.
// Go expression syntax plus  ==>  <==>  forall/exists x T :: e   old(e)   c ? a : b   a ++ b

import (
	"fmt"
	"strings"
)

type Expr interface{ String() string }

type (
	EIdent struct{ Name string }
	EInt   struct{ V string }
	EStr   struct{ V string }
	EBool  struct{ V bool }
	ENil   struct{}
	EUnary struct {
		Op string
		X  Expr
	}
	EBinary struct {
		Op   string
		X, Y Expr
	}
	ECond struct{ C, A, B Expr }
	ECall struct {
		Fun  Expr
		Args []Expr
	}
	ESel struct {
		X    Expr
		Name string
	}
	EIndex struct{ X, I Expr }
	ESlice struct{ X, Lo, Hi Expr }
	QVar   struct{ Name, Type string }
	EQuant struct {
		Forall bool
		Vars   []QVar
		Body   Expr
	}
)

func (e *EIdent) String() string { return e.Name }
func (e *EInt) String() string   { return e.V }
func (e *EStr) String() string   { return fmt.Sprintf("%q", e.V) }
func (e *EBool) String() string  { return fmt.Sprint(e.V) }
func (e *ENil) String() string   { return "nil" }
func (e *EUnary) String() string { return e.Op + e.X.String() }
func (e *EBinary) String() string {
	return "(" + e.X.String() + " " + e.Op + " " + e.Y.String() + ")"
}
func (e *ECond) String() string {
	return "(" + e.C.String() + " ? " + e.A.String() + " : " + e.B.String() + ")"
}
func (e *ECall) String() string {
	var a []string
	for _, x := range e.Args {
		a = append(a, x.String())
	}
	return e.Fun.String() + "(" + strings.Join(a, ", ") + ")"
}
func (e *ESel) String() string   { return e.X.String() + "." + e.Name }
func (e *EIndex) String() string { return e.X.String() + "[" + e.I.String() + "]" }
func (e *ESlice) String() string {
	lo, hi := "", ""
	if e.Lo != nil {
		lo = e.Lo.String()
	}
	if e.Hi != nil {
		hi = e.Hi.String()
	}
	return e.X.String() + "[" + lo + ":" + hi + "]"
}
func (e *EQuant) String() string {
	q := "exists"
	if e.Forall {
		q = "forall"
	}
	var vs []string
	for _, v := range e.Vars {
		vs = append(vs, v.Name+" "+v.Type)
	}
	return "(" + q + " " + strings.Join(vs, ", ") + " :: " + e.Body.String() + ")"
}

type tok struct {
	kind string // id int str char op eof
	text string
}

func tokenize(s string) ([]tok, error) {
	var toks []tok
	i := 0
	ops := []string{"<==>", "==>", "::", "&&", "||", "==", "!=", "<=", ">=", "++", "(", ")", "[", "]", "{", "}", ":", ",", ".", "?", "<", ">", "+", "-", "*", "/", "%", "!", "&"}
	for i < len(s) {
		c := s[i]
		switch {
		case c == ' ' || c == '\t' || c == '\n':
			i++
		case c >= '0' && c <= '9':
			j := i
			for j < len(s) && (s[j] >= '0' && s[j] <= '9' || s[j] == 'x' || (s[j] >= 'a' && s[j] <= 'f') || (s[j] >= 'A' && s[j] <= 'F')) {
				j++
			}
			toks = append(toks, tok{"int", s[i:j]})
			i = j
		case c == '_' || c == '$' || c == '@' || (c >= 'a' && c <= 'z') || (c >= 'A' && c <= 'Z'):
			j := i
			for j < len(s) && (s[j] == '_' || s[j] == '$' || s[j] == '#' || s[j] == '@' || (s[j] >= 'a' && s[j] <= 'z') || (s[j] >= 'A' && s[j] <= 'Z') || (s[j] >= '0' && s[j] <= '9')) {
				j++
			}
			toks = append(toks, tok{"id", s[i:j]})
			i = j
		case c == '\'':
			// char literal
			j := i + 1
			var v int
			if j < len(s) && s[j] == '\\' {
				j++
				switch s[j] {
				case 'n':
					v = 10
				case 'r':
					v = 13
				case 't':
					v = 9
				case '0':
					v = 0
				case '\\':
					v = '\\'
				case '\'':
					v = '\''
				case '"':
					v = '"'
				default:
					return nil, fmt.Errorf("bad escape in char literal at %d", i)
				}
				j++
			} else {
				v = int(s[j])
				j++
			}
			if j >= len(s) || s[j] != '\'' {
				return nil, fmt.Errorf("unterminated char literal at %d in %q", i, s)
			}
			toks = append(toks, tok{"int", fmt.Sprint(v)})
			i = j + 1
		case c == '"':
			j := i + 1
			var sb strings.Builder
			for j < len(s) && s[j] != '"' {
				if s[j] == '\\' && j+1 < len(s) {
					j++
					switch s[j] {
					case 'n':
						sb.WriteByte('\n')
					case 'r':
						sb.WriteByte('\r')
					case 't':
						sb.WriteByte('\t')
					default:
						sb.WriteByte(s[j])
					}
				} else {
					sb.WriteByte(s[j])
				}
				j++
			}
			if j >= len(s) {
				return nil, fmt.Errorf("unterminated string at %d", i)
			}
			toks = append(toks, tok{"str", sb.String()})
			i = j + 1
		default:
			matched := false
			for _, op := range ops {
				if strings.HasPrefix(s[i:], op) {
					toks = append(toks, tok{"op", op})
					i += len(op)
					matched = true
					break
				}
			}
			if !matched {
				return nil, fmt.Errorf("unexpected character %q at %d in %q", c, i, s)
			}
		}
	}
	toks = append(toks, tok{"eof", ""})
	return toks, nil
}

type parser struct {
	toks []tok
	pos  int
	src  string
}

func ParseExpr(s string) (e Expr, err error) {
	toks, err := tokenize(s)
	if err != nil {
		return nil, err
	}
	p := &parser{toks: toks, src: s}
	defer func() {
		if r := recover(); r != nil {
			if pe, ok := r.(parseErr); ok {
				err = fmt.Errorf("%s (in %q)", string(pe), s)
				return
			}
			panic(r)
		}
	}()
	e = p.expr(0)
	if p.peek().kind != "eof" {
		p.fail("trailing tokens starting at %q", p.peek().text)
	}
	return e, nil
}

type parseErr string

func (p *parser) fail(f string, a ...any) { panic(parseErr(fmt.Sprintf(f, a...))) }
func (p *parser) peek() tok               { return p.toks[p.pos] }
func (p *parser) next() tok               { t := p.toks[p.pos]; p.pos++; return t }
func (p *parser) isOp(s string) bool      { t := p.peek(); return t.kind == "op" && t.text == s }
func (p *parser) expectOp(s string) {
	if !p.isOp(s) {
		p.fail("expected %q, got %q", s, p.peek().text)
	}
	p.pos++
}

var binPrec = map[string]int{
	"<==>": 1, "==>": 2, "?": 3, "||": 4, "&&": 5,
	"==": 6, "!=": 6, "<": 6, "<=": 6, ">": 6, ">=": 6,
	"++": 7, "+": 8, "-": 8, "*": 9, "/": 9, "%": 9,
}

func (p *parser) expr(min int) Expr {
	lhs := p.unary()
	for {
		t := p.peek()
		if t.kind != "op" {
			return lhs
		}
		prec, ok := binPrec[t.text]
		if !ok || prec < min {
			return lhs
		}
		p.pos++
		switch t.text {
		case "==>":
			rhs := p.expr(prec) // right assoc
			lhs = &EBinary{"==>", lhs, rhs}
		case "?":
			a := p.expr(prec + 1)
			p.expectOp(":")
			b := p.expr(prec)
			lhs = &ECond{lhs, a, b}
		default:
			rhs := p.expr(prec + 1)
			lhs = &EBinary{t.text, lhs, rhs}
		}
	}
}

func (p *parser) unary() Expr {
	t := p.peek()
	if t.kind == "op" {
		switch t.text {
		case "!", "-", "*", "&":
			p.pos++
			return &EUnary{t.text, p.unary()}
		}
	}
	if t.kind == "id" && (t.text == "forall" || t.text == "exists") {
		p.pos++
		q := &EQuant{Forall: t.text == "forall"}
		for {
			var names []string
			names = append(names, p.next().text)
			for p.isOp(",") {
				// lookahead: "a, b T" vs "a T, b U"
				p.pos++
				names = append(names, p.next().text)
			}
			typ := "int"
			if !p.isOp("::") && !p.isOp(",") {
				typ = p.typeName()
			}
			for _, n := range names {
				q.Vars = append(q.Vars, QVar{n, typ})
			}
			if p.isOp(",") {
				p.pos++
				continue
			}
			break
		}
		p.expectOp("::")
		q.Body = p.expr(0)
		return q
	}
	return p.postfix(p.primary())
}

func (p *parser) typeName() string {
	s := ""
	for p.isOp("*") || p.isOp("[") {
		if p.isOp("*") {
			s += "*"
			p.pos++
		} else {
			p.pos++
			p.expectOp("]")
			s += "[]"
		}
	}
	t := p.next()
	if t.kind != "id" {
		p.fail("expected type name, got %q", t.text)
	}
	s += t.text
	if p.isOp(".") {
		p.pos++
		s += "." + p.next().text
	}
	return s
}

func (p *parser) primary() Expr {
	t := p.next()
	switch t.kind {
	case "int":
		return &EInt{t.text}
	case "str":
		return &EStr{t.text}
	case "id":
		switch t.text {
		case "true":
			return &EBool{true}
		case "false":
			return &EBool{false}
		case "nil":
			return &ENil{}
		}
		return &EIdent{t.text}
	case "op":
		if t.text == "(" {
			e := p.expr(0)
			p.expectOp(")")
			return e
		}
	}
	p.fail("unexpected tok %q", t.text)
	return nil
}

func (p *parser) postfix(e Expr) Expr {
	for {
		switch {
		case p.isOp("."):
			p.pos++
			t := p.next()
			if t.kind != "id" {
				p.fail("expected field name after '.'")
			}
			e = &ESel{e, t.text}
		case p.isOp("("):
			p.pos++
			var args []Expr
			for !p.isOp(")") {
				args = append(args, p.expr(0))
				if p.isOp(",") {
					p.pos++
				}
			}
			p.pos++
			e = &ECall{e, args}
		case p.isOp("["):
			p.pos++
			var lo, hi Expr
			if !p.isOp(":") {
				lo = p.expr(0)
			}
			if p.isOp(":") {
				p.pos++
				if !p.isOp("]") {
					hi = p.expr(0)
				}
				p.expectOp("]")
				e = &ESlice{e, lo, hi}
			} else {
				p.expectOp("]")
				e = &EIndex{e, lo}
			}
		default:
			return e
		}
	}
}

// substExpr replaces free identifiers by expressions.
func substExpr(e Expr, m map[string]Expr) Expr {
	switch x := e.(type) {
	case nil:
		return nil
	case *EIdent:
		if r, ok := m[x.Name]; ok {
			return r
		}
		return x
	case *EUnary:
		return &EUnary{x.Op, substExpr(x.X, m)}
	case *EBinary:
		return &EBinary{x.Op, substExpr(x.X, m), substExpr(x.Y, m)}
	case *ECond:
		return &ECond{substExpr(x.C, m), substExpr(x.A, m), substExpr(x.B, m)}
	case *ECall:
		var as []Expr
		for _, a := range x.Args {
			as = append(as, substExpr(a, m))
		}
		return &ECall{x.Fun, as}
	case *ESel:
		return &ESel{substExpr(x.X, m), x.Name}
	case *EIndex:
		return &EIndex{substExpr(x.X, m), substExpr(x.I, m)}
	case *ESlice:
		var lo, hi Expr
		if x.Lo != nil {
			lo = substExpr(x.Lo, m)
		}
		if x.Hi != nil {
			hi = substExpr(x.Hi, m)
		}
		return &ESlice{substExpr(x.X, m), lo, hi}
	case *EQuant:
		m2 := map[string]Expr{}
		for k, v := range m {
			m2[k] = v
		}
		for _, v := range x.Vars {
			delete(m2, v.Name)
		}
		return &EQuant{x.Forall, x.Vars, substExpr(x.Body, m2)}
	}
	return e
}

// splitConj splits an expression into conjuncts, expanding predicate calls and distributing ==> over &&.
func splitConj(e Expr, db *SpecDB, depth int) []Expr {
	switch x := e.(type) {
	case *EBinary:
		if x.Op == "&&" {
			return append(splitConj(x.X, db, depth), splitConj(x.Y, db, depth)...)
		}
		if x.Op == "==>" {
			var out []Expr
			for _, c := range splitConj(x.Y, db, depth) {
				out = append(out, &EBinary{"==>", x.X, c})
			}
			return out
		}
	case *ECall:
		if id, ok := x.Fun.(*EIdent); ok && depth < 4 {
			if p, ok := db.Preds[id.Name]; ok && len(p.Params) == len(x.Args) {
				simple := true
				for _, a := range x.Args {
					switch a.(type) {
					case *EIdent, *ESel, *EInt:
					default:
						simple = false
					}
				}
				if simple {
					m := map[string]Expr{}
					for i, pp := range p.Params {
						m[pp.Name] = x.Args[i]
					}
					return splitConj(substExpr(p.Body, m), db, depth+1)
				}
			}
		}
	}
	return []Expr{e}
}
