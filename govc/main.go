package main

import (
	"flag"
	"fmt"
	"os"
	"regexp"
	"sort"
	"strings"
	"sync"

	"golang.org/x/tools/go/ssa"
)

func main() {
	if len(os.Args) < 2 {
		fmt.Fprintln(os.Stderr, "usage: govc verify|check|ssa|list ...")
		os.Exit(2)
	}
	switch os.Args[1] {
	case "cover":
		cmdVerify(append([]string{"-cover"}, os.Args[2:]...))
	case "pair":
		cmdVerify(append([]string{"-pair"}, os.Args[2:]...))
	case "verify":
		cmdVerify(os.Args[2:])
	case "check":
		cmdCheck(os.Args[2:])
	case "conj":
		e, err := LoadEngine(envOr("GOVC_REPO", "/repo"), envOr("GOVC_VERIF", "/verif"))
		if err != nil {
			fmt.Fprintln(os.Stderr, err)
			os.Exit(2)
		}
		x, err := ParseExpr(os.Args[2])
		if err != nil {
			fmt.Fprintln(os.Stderr, err)
			os.Exit(2)
		}
		for i, c := range splitConj(x, e.db, 0) {
			fmt.Printf("/%d  %s\n", i+1, c.String())
		}
	case "replay":
		cmdReplay(os.Args[2:])
	case "ssa":
		cmdSSA(os.Args[2:])
	default:
		fmt.Fprintln(os.Stderr, "unknown command", os.Args[1])
		os.Exit(2)
	}
}

func envOr(k, d string) string {
	if v := os.Getenv(k); v != "" {
		return v
	}
	return d
}

func cmdSSA(args []string) {
	e, err := LoadEngine(envOr("GOVC_REPO", "/repo"), envOr("GOVC_VERIF", "/verif"))
	if err != nil {
		fmt.Fprintln(os.Stderr, err)
		os.Exit(2)
	}
	re := regexp.MustCompile(args[0])
	for _, f := range e.allFuncs {
		if re.MatchString(e.keyOf(f)) {
			fmt.Println("KEY", e.keyOf(f))
			f.WriteTo(os.Stdout)
		}
	}
}

// selectFuncs returns the functions under contract (non-extern) matching the filter.
func (e *Engine) selectFuncs(fnRe *regexp.Regexp, tag string, sweep bool) []*ssa.Function {
	var out []*ssa.Function
	for _, f := range e.allFuncs {
		key := e.keyOf(f)
		if f.Blocks == nil || f.Synthetic != "" && !strings.Contains(f.Synthetic, "instance of") {
			continue
		}
		if !e.inRepo(f) {
			// dependency functions are verified only when they carry a (non-extern, non-inline) contract
			if sp := e.db.Funcs[key]; sp == nil || sp.Kind != "func" || sp.Inline || len(sp.Clauses) == 0 {
				continue
			}
		}
		if fnRe != nil && !fnRe.MatchString(key) {
			continue
		}
		sp, _ := e.specFor(f)
		if sp == nil {
			if !sweep {
				continue
			}
		} else {
			if sp.Kind == "extern" || sp.Trusted || sp.Inline {
				continue
			}
			// C01 (no panic, termination) owns the safety obligations of every function under contract
			if tag != "" && tag != "C01" && !hasTag(sp.Tags, tag) && !clauseHasTag(sp, tag) {
				continue
			}
		}
		out = append(out, f)
	}
	return out
}

func hasTag(ts []string, t string) bool {
	for _, x := range ts {
		if x == t {
			return true
		}
	}
	return false
}

func clauseHasTag(sp *FuncSpec, t string) bool {
	for _, c := range sp.Clauses {
		if hasTag(c.Tags, t) {
			return true
		}
	}
	return false
}

func (e *Engine) verifyAll(fns []*ssa.Function, dir string, perMs int, solvers []string, agree bool, workers int) []*FnResult {
	results := make([]*FnResult, len(fns))
	sem := make(chan struct{}, workers)
	// Phase 1: generate every VC once to fill the engine-level registries (heap arrays, function ids, mod sets), so that
	// the text of each VC generated in phase 2 does not depend on the order in which the workers happen to run.
	var wg0 sync.WaitGroup
	nErr := len(e.specErrs)
	for _, f := range fns {
		wg0.Add(1)
		go func(f *ssa.Function) {
			defer wg0.Done()
			sem <- struct{}{}
			defer func() { <-sem }()
			e.BuildVC(f)
		}(f)
	}
	wg0.Wait()
	e.specErrs = e.specErrs[:nErr]
	var wg sync.WaitGroup
	for i, f := range fns {
		wg.Add(1)
		go func(i int, f *ssa.Function) {
			defer wg.Done()
			sem <- struct{}{}
			defer func() { <-sem }()
			vc := e.BuildVC(f)
			results[i] = e.Solve(vc, dir, perMs, solvers, agree)
		}(i, f)
	}
	wg.Wait()
	// Obligations left undecided (not refuted) are tried once more, one VC at a time and with twice the budget (first two solvers):
	// a solver timeout under load must not be reported as a violation.
	for i, r := range results {
		retry := false
		for _, o := range r.VC.obls {
			if o.Unclaimed == "" && o.Result != "unsat" && o.Result != "sat" {
				retry = true
			}
		}
		if retry {
			if os.Getenv("GOVC_DEBUG") != "" {
				for _, o := range r.VC.obls {
					if o.Unclaimed == "" && o.Result != "unsat" && o.Result != "sat" {
						fmt.Fprintf(os.Stderr, "retry: %s (%s by %s)\n", o.Name, o.Result, o.Solver)
					}
				}
			}
			for _, o := range r.VC.obls {
				if o.Result != "unsat" && o.Result != "sat" {
					o.Result, o.Solver = "", ""
				}
			}
			rs := solvers
			if len(rs) > 2 {
				rs = rs[:2]
			}
			r2 := e.Solve(r.VC, dir, perMs*2, rs, false)
			r2.Secs += r.Secs
			if r2.Smoke == "" {
				r2.Smoke = r.Smoke
			}
			results[i] = r2
		}
	}
	return results
}

func cmdVerify(args []string) {
	fs := flag.NewFlagSet("verify", flag.ExitOnError)
	fnPat := fs.String("fn", "", "regexp on function keys")
	tag := fs.String("tag", "", "property tag")
	sweep := fs.Bool("sweep", false, "include functions without contract")
	dump := fs.String("dump", "", "directory to keep SMT files")
	per := fs.Int("t", 5000, "per-obligation timeout ms")
	solv := fs.String("solvers", "z3new,cvc5,z3", "solver order")
	agree := fs.Bool("agree", false, "run all solvers")
	verbose := fs.Bool("v", false, "print every obligation")
	pair := fs.Bool("pair", false, "two-run (equiv) lemmas instead of contracts")
	cover := fs.Bool("cover", false, "vacuity audit: report ensures implications whose antecedent is unreachable at exit")
	fs.Parse(args)
	e, err := LoadEngine(envOr("GOVC_REPO", "/repo"), envOr("GOVC_VERIF", "/verif"))
	if err != nil {
		fmt.Fprintln(os.Stderr, err)
		os.Exit(2)
	}
	e.covers = *cover
	var re *regexp.Regexp
	if *fnPat != "" {
		re = regexp.MustCompile(*fnPat)
	}
	fns := e.selectFuncs(re, *tag, *sweep)
	dir := *dump
	if dir == "" {
		dir, _ = os.MkdirTemp("", "govc-")
		defer os.RemoveAll(dir)
	} else {
		os.MkdirAll(dir, 0o755)
	}
	var results []*FnResult
	if *pair {
		var m interface{ MatchString(string) bool }
		if re != nil {
			m = re
		}
		jobs, skipped := e.pairJobs(*tag, m)
		for k, r := range skipped {
			fmt.Printf("skipped %s: %s\n", k, r)
		}
		results = e.verifyPairs(jobs, dir, *per, strings.Split(*solv, ","), *agree, 16)
	} else {
		results = e.verifyAll(fns, dir, *per, strings.Split(*solv, ","), *agree, 16)
	}
	nOK, nAll := 0, 0
	for _, r := range results {
		vc := r.VC
		ok := 0
		for _, o := range vc.obls {
			if o.Result == "unsat" || o.Unclaimed != "" {
				ok++
			}
		}
		nOK += ok
		nAll += len(vc.obls)
		status := "OK"
		if ok != len(vc.obls) {
			status = "FAIL"
		}
		if len(vc.unsup) > 0 {
			status += " UNSUPPORTED"
		}
		fmt.Printf("%-60s %d/%d %s %.2fs smoke=%s exit=%s\n", vc.key, ok, len(vc.obls), status, r.Secs, r.Smoke, r.Exit)
		for _, u := range vc.unsup {
			fmt.Printf("    unsupported: %s\n", u)
		}
		if *cover && len(r.Runs) > 0 {
			for i, d := range vc.covers {
				if r.Runs[0].covers[i] == "unsat" {
					fmt.Printf("    VACUOUS  %s#ensures@%s\n", vc.key, d)
				}
			}
		}
		for _, d := range r.Disagree {
			fmt.Printf("    DISAGREE: %s\n", d)
		}
		for _, run := range r.Runs {
			for _, er := range run.errs {
				fmt.Printf("    %s error: %s\n", run.solver, er)
			}
		}
		for _, o := range vc.obls {
			if *verbose || (o.Result != "unsat" && o.Unclaimed == "") {
				fmt.Printf("    %-8s %-6s %s  [%s] %s\n", o.Result, o.Solver, o.Name, strings.Join(o.Tags, ","), o.Pos)
			}
		}
		if *verbose {
			for _, n := range vc.notes {
				fmt.Printf("    note: %s\n", n)
			}
		}
	}
	sort.Strings(e.specErrs)
	for _, s := range e.specErrs {
		fmt.Println("SPEC ERROR:", s)
	}
	fmt.Printf("total: %d/%d obligations discharged over %d functions\n", nOK, nAll, len(results))
}
