package main

import (
	"fmt"
	"go/token"
	"go/types"
	"os"
	"sort"
	"strings"
	"sync"

	"golang.org/x/tools/go/packages"
	"golang.org/x/tools/go/ssa"
	"golang.org/x/tools/go/ssa/ssautil"
)

type modSet struct {
	all      bool
	heaps    map[string]bool
	pureArgs bool
}

type Engine struct {
	repo, verif string
	prog        *ssa.Program
	pkgs        []*ssa.Package
	byName      map[string]*ssa.Package
	tpkgs       map[string]*types.Package
	db          *SpecDB
	funcs       map[string]*ssa.Function // key -> function
	allFuncs    []*ssa.Function
	fnIDs       map[*ssa.Function]int
	typeIDs     map[string]int
	typeByID    []types.Type
	mu          sync.Mutex
	specErrs    []string
	covers      bool
	needClo     bool
	needBridge  bool
	boxes       map[string]types.Type
	impls       map[string]types.Type
	modMemo     map[*ssa.Function]*modSet
	modBusy     map[*ssa.Function]bool
	scc         map[*ssa.Function]int
	sccSize     map[int]int
	selfRec     map[*ssa.Function]bool
	callees     map[*ssa.Function][]*ssa.Function
	globals     map[*types.Var]*ssa.Global
	addrTaken   map[string][]*ssa.Function // functions used as values by signature key
	heapSorts   map[string]heapDesc
	hmu         sync.RWMutex
}

func (e *Engine) regHeap(name string, d heapDesc) {
	e.hmu.RLock()
	_, ok := e.heapSorts[name]
	e.hmu.RUnlock()
	if ok {
		return
	}
	e.hmu.Lock()
	if e.heapSorts == nil {
		e.heapSorts = map[string]heapDesc{}
	}
	e.heapSorts[name] = d
	e.hmu.Unlock()
}

func (e *Engine) heapDescOf(name string) (heapDesc, bool) {
	e.hmu.RLock()
	defer e.hmu.RUnlock()
	d, ok := e.heapSorts[name]
	return d, ok
}

func (e *Engine) heapNames() []string {
	e.hmu.RLock()
	defer e.hmu.RUnlock()
	return sortedKeys(e.heapSorts)
}

func (e *Engine) specError(f string, a ...any) {
	e.mu.Lock()
	defer e.mu.Unlock()
	s := fmt.Sprintf(f, a...)
	for _, x := range e.specErrs {
		if x == s {
			return
		}
	}
	e.specErrs = append(e.specErrs, s)
}

func LoadEngine(repo, verif string) (*Engine, error) {
	cfg := &packages.Config{Mode: packages.LoadAllSyntax, Dir: repo, BuildFlags: []string{"-tags=verif"}, Env: append(os.Environ(), "GOFLAGS=-mod=mod", "GOPROXY=off", "GOSUMDB=off", "GOTOOLCHAIN=local")}
	pkgs, err := packages.Load(cfg, "./...")
	if err != nil {
		return nil, err
	}
	var errs []string
	packages.Visit(pkgs, nil, func(p *packages.Package) {
		for _, e := range p.Errors {
			errs = append(errs, e.Error())
		}
	})
	if len(errs) > 0 {
		return nil, fmt.Errorf("package errors: %s", strings.Join(errs, "; "))
	}
	prog, sp := ssautil.AllPackages(pkgs, ssa.NaiveForm|ssa.InstantiateGenerics)
	prog.Build()
	e := &Engine{repo: repo, verif: verif, prog: prog, byName: map[string]*ssa.Package{}, tpkgs: map[string]*types.Package{},
		funcs: map[string]*ssa.Function{}, fnIDs: map[*ssa.Function]int{}, typeIDs: map[string]int{}, boxes: map[string]types.Type{}, impls: map[string]types.Type{},
		modMemo: map[*ssa.Function]*modSet{}, modBusy: map[*ssa.Function]bool{}, globals: map[*types.Var]*ssa.Global{}, addrTaken: map[string][]*ssa.Function{}}
	for _, p := range sp {
		if p == nil {
			continue
		}
		path := p.Pkg.Path()
		if !strings.HasPrefix(path, jsightAPI) || strings.Contains(path, "/internal/") || strings.HasSuffix(path, "/test") || strings.Contains(path, "/test/") {
			continue
		}
		e.pkgs = append(e.pkgs, p)
		e.byName[p.Pkg.Name()] = p
	}
	for _, p := range prog.AllPackages() {
		e.tpkgs[p.Pkg.Path()] = p.Pkg
		for _, m := range p.Members {
			if g, ok := m.(*ssa.Global); ok {
				if v, ok := g.Object().(*types.Var); ok {
					e.globals[v] = g
				}
			}
		}
	}
	// all functions (incl. methods, closures) reachable in the program
	all := ssautil.AllFunctions(prog)
	for f := range all {
		e.allFuncs = append(e.allFuncs, f)
	}
	sort.Slice(e.allFuncs, func(i, j int) bool {
		a, b := e.allFuncs[i], e.allFuncs[j]
		if a.String() != b.String() {
			return a.String() < b.String()
		}
		return a.Pos() < b.Pos()
	})
	for i, f := range e.allFuncs {
		e.fnIDs[f] = 1000 + i
		k := e.keyOf(f)
		if _, dup := e.funcs[k]; !dup {
			e.funcs[k] = f
		}
	}
	e.db = NewSpecDB()
	if err := e.db.LoadAll(repo, verif); err != nil {
		return nil, err
	}
	e.buildCallGraph()
	return e, nil
}

func (e *Engine) inRepo(f *ssa.Function) bool {
	p := f.Pkg
	if p == nil && f.Origin() != nil {
		p = f.Origin().Pkg
	}
	if p == nil {
		if f.Parent() != nil {
			return e.inRepo(f.Parent())
		}
		return false
	}
	_, ok := e.byName[p.Pkg.Name()]
	return ok && strings.HasPrefix(p.Pkg.Path(), jsightAPI)
}

func (e *Engine) keyOf(f *ssa.Function) string {
	if p := f.Parent(); p != nil {
		// closures: <key of the enclosing function>$<n>
		name := f.Name()
		if i := strings.LastIndex(name, "$"); i >= 0 {
			return e.keyOf(p) + name[i:]
		}
	}
	return shortPath(f.String())
}

func (e *Engine) funcID(f *ssa.Function) int {
	if id, ok := e.fnIDs[f]; ok {
		return id
	}
	e.mu.Lock()
	defer e.mu.Unlock()
	id := 100000 + len(e.fnIDs)
	e.fnIDs[f] = id
	return id
}

func (e *Engine) typeID(t types.Type) int {
	k := typeKey(t)
	e.mu.Lock()
	defer e.mu.Unlock()
	if id, ok := e.typeIDs[k]; ok {
		return id
	}
	id := len(e.typeIDs) + 1
	e.typeIDs[k] = id
	e.typeByID = append(e.typeByID, t)
	return id
}

func (e *Engine) boxFn(vc *FnVC, t types.Type) string {
	k := typeKey(t)
	name := q("box:" + k)
	if !vc.declared[name] {
		vc.declared[name] = true
		srt := vc.sorts.SortOf(t)
		un := q("unbox:" + k)
		vc.declared[un] = true
		vc.decl = append(vc.decl, fmt.Sprintf("(declare-fun %s (%s) Int)", name, srt), fmt.Sprintf("(declare-fun %s (Int) %s)", un, srt),
			fmt.Sprintf("(assert (forall ((x %s)) (! (= (%s (%s x)) x) :pattern ((%s x)))))", srt, un, name, name))
	}
	return name
}

func (e *Engine) unboxFn(vc *FnVC, t types.Type) string {
	e.boxFn(vc, t)
	return q("unbox:" + typeKey(t))
}

func (e *Engine) implementsFn(vc *FnVC, t types.Type) string {
	name := q("implements:" + typeKey(t))
	if !vc.declared[name] {
		vc.declared[name] = true
		vc.decl = append(vc.decl, fmt.Sprintf("(declare-fun %s (Int) Bool)", name))
	}
	return name
}

func (e *Engine) pkgByName(name string) *types.Package {
	if p, ok := e.byName[name]; ok {
		return p.Pkg
	}
	for path, p := range e.tpkgs {
		if p.Name() == name && !strings.Contains(path, "/internal/") && !strings.Contains(path, "vendor/") {
			if strings.HasPrefix(path, jsightSchema) || !strings.Contains(path, ".") {
				return p
			}
		}
	}
	return nil
}

func (e *Engine) lookupGlobalName(name string) types.Object {
	var found types.Object
	for _, p := range e.pkgs {
		if obj := p.Pkg.Scope().Lookup(name); obj != nil {
			if found != nil {
				return nil
			}
			found = obj
		}
	}
	return found
}

func (e *Engine) globalOf(v *types.Var) (*ssa.Global, bool) {
	g, ok := e.globals[v]
	return g, ok
}

// autoInline: tiny leaf functions without a contract that are pure computations are treated as transparent.
func (e *Engine) autoInline(f *ssa.Function) bool {
	return false
}

// ---------- call graph, SCCs ----------

func (e *Engine) buildCallGraph() {
	e.callees = map[*ssa.Function][]*ssa.Function{}
	for _, f := range e.allFuncs {
		if !e.inRepo(f) {
			continue
		}
		seen := map[*ssa.Function]bool{}
		for _, b := range f.Blocks {
			for _, ins := range b.Instrs {
				// function values taken
				for _, op := range ins.Operands(nil) {
					if op == nil || *op == nil {
						continue
					}
					if fn, ok := (*op).(*ssa.Function); ok {
						if ci, isCall := ins.(ssa.CallInstruction); !isCall || ci.Common().Value != fn {
							k := typeKey(fn.Signature)
							_ = k
							e.addrTaken[sigKey(fn.Signature)] = appendUniq(e.addrTaken[sigKey(fn.Signature)], fn)
						}
					}
					if mc, ok := (*op).(*ssa.MakeClosure); ok {
						fn := mc.Fn.(*ssa.Function)
						e.addrTaken[sigKey(fn.Signature)] = appendUniq(e.addrTaken[sigKey(fn.Signature)], fn)
					}
				}
				ci, ok := ins.(ssa.CallInstruction)
				if !ok {
					continue
				}
				if c := ci.Common().StaticCallee(); c != nil && !seen[c] {
					seen[c] = true
					e.callees[f] = append(e.callees[f], c)
				}
			}
		}
	}
	// second pass: dynamic calls resolved by signature over address-taken functions; interface calls by method sets (CHA-lite)
	for _, f := range e.allFuncs {
		if !e.inRepo(f) {
			continue
		}
		for _, b := range f.Blocks {
			for _, ins := range b.Instrs {
				ci, ok := ins.(ssa.CallInstruction)
				if !ok {
					continue
				}
				c := ci.Common()
				if c.StaticCallee() != nil {
					continue
				}
				if _, isB := c.Value.(*ssa.Builtin); isB {
					continue
				}
				for _, t := range e.dynamicTargets(c) {
					e.callees[f] = appendUniq(e.callees[f], t)
				}
			}
		}
	}
	// Tarjan SCC
	e.scc = map[*ssa.Function]int{}
	e.sccSize = map[int]int{}
	e.selfRec = map[*ssa.Function]bool{}
	index := map[*ssa.Function]int{}
	low := map[*ssa.Function]int{}
	on := map[*ssa.Function]bool{}
	var stack []*ssa.Function
	idx, comp := 0, 0
	var strong func(v *ssa.Function)
	strong = func(v *ssa.Function) {
		idx++
		index[v], low[v] = idx, idx
		stack = append(stack, v)
		on[v] = true
		for _, w := range e.callees[v] {
			if w == v {
				e.selfRec[v] = true
			}
			if _, ok := index[w]; !ok {
				strong(w)
				if low[w] < low[v] {
					low[v] = low[w]
				}
			} else if on[w] && index[w] < low[v] {
				low[v] = index[w]
			}
		}
		if low[v] == index[v] {
			comp++
			for {
				w := stack[len(stack)-1]
				stack = stack[:len(stack)-1]
				on[w] = false
				e.scc[w] = comp
				e.sccSize[comp]++
				if w == v {
					break
				}
			}
		}
	}
	for _, f := range e.allFuncs {
		if _, ok := index[f]; !ok && e.inRepo(f) {
			strong(f)
		}
	}
}

func sigKey(s *types.Signature) string {
	var ps, rs []string
	for i := 0; i < s.Params().Len(); i++ {
		ps = append(ps, typeKey(s.Params().At(i).Type()))
	}
	for i := 0; i < s.Results().Len(); i++ {
		rs = append(rs, typeKey(s.Results().At(i).Type()))
	}
	return "(" + strings.Join(ps, ",") + ")(" + strings.Join(rs, ",") + ")"
}

func appendUniq(s []*ssa.Function, f *ssa.Function) []*ssa.Function {
	for _, x := range s {
		if x == f {
			return s
		}
	}
	return append(s, f)
}

func (e *Engine) dynamicTargets(c *ssa.CallCommon) []*ssa.Function {
	if c.IsInvoke() {
		var out []*ssa.Function
		it := c.Value.Type().Underlying().(*types.Interface)
		for _, f := range e.allFuncs {
			if f.Signature.Recv() == nil || f.Name() != c.Method.Name() || f.Synthetic != "" {
				continue
			}
			if types.Implements(f.Signature.Recv().Type(), it) {
				out = append(out, f)
			}
		}
		return out
	}
	sig, ok := c.Value.Type().Underlying().(*types.Signature)
	if !ok {
		return nil
	}
	return e.addrTaken[sigKey(sig)]
}

func (e *Engine) isRecursive(f *ssa.Function) bool {
	return e.selfRec[f] || e.sccSize[e.scc[f]] > 1
}

func (e *Engine) sameSCC(a, b *ssa.Function) bool {
	ia, ok1 := e.scc[a]
	ib, ok2 := e.scc[b]
	if !ok1 || !ok2 {
		return false
	}
	return ia == ib && (a != b || e.selfRec[a])
}

// ---------- frame (modifies) inference at heap-array granularity ----------

var pureExternPkgs = map[string]bool{"strings": true, "strconv": true, "unicode": true, "unicode/utf8": true, "errors": true, "fmt": true,
	"path/filepath": true, "path": true, "hash/fnv": true, "net/url": true, "math": true, "regexp": true, "sort": false, "bytes": true,
	"encoding/json": true, "os": true, "sync": true, "hash": true, "io": true, "reflect": true, "regexp/syntax": true}

func (e *Engine) modSetOfCall(vc *FnVC, c *ssa.CallCommon) modSet {
	if f := c.StaticCallee(); f != nil {
		return e.modSetOf(vc, f)
	}
	if _, ok := c.Value.(*ssa.Builtin); ok {
		return modSet{heaps: map[string]bool{}}
	}
	ts := e.dynamicTargets(c)
	if len(ts) == 0 {
		if c.IsInvoke() {
			// interface method with no implementation in the program (e.g. error.Error of unknown types): assume pure
			return modSet{heaps: map[string]bool{}, pureArgs: true}
		}
		return modSet{all: true}
	}
	out := modSet{heaps: map[string]bool{}}
	for _, t := range ts {
		m := e.modSetOf(vc, t)
		if m.all {
			return modSet{all: true}
		}
		for h := range m.heaps {
			out.heaps[h] = true
		}
	}
	return out
}

func (e *Engine) modSetOf(vc *FnVC, f *ssa.Function) modSet {
	e.mu.Lock()
	if m, ok := e.modMemo[f]; ok {
		e.mu.Unlock()
		vc.registerHeaps(m)
		return *m
	}
	e.mu.Unlock()
	visited := map[*ssa.Function]bool{}
	m := &modSet{heaps: map[string]bool{}}
	e.modCollect(vc, f, m, visited)
	e.addGhostFollowers(vc, m)
	e.mu.Lock()
	e.modMemo[f] = m
	e.mu.Unlock()
	return *m
}

func (vc *FnVC) registerHeaps(m *modSet) {}

func (e *Engine) modCollect(vc *FnVC, f *ssa.Function, m *modSet, visited map[*ssa.Function]bool) {
	if visited[f] || m.all {
		return
	}
	visited[f] = true
	if sp := e.db.Funcs[e.keyOf(f)]; sp != nil && sp.Pure {
		return
	}
	if f.Blocks == nil || !e.inRepo(f) && !strings.HasPrefix(pkgPathOf(f), jsightSchema) {
		p := pkgPathOf(f)
		if pureExternPkgs[p] {
			return
		}
		if f.Blocks == nil {
			m.all = true
			return
		}
	}
	for _, b := range f.Blocks {
		for _, ins := range b.Instrs {
			switch x := ins.(type) {
			case *ssa.Store:
				al, h, ok := vc.rootOfAddr(x.Addr)
				if !ok {
					if !e.wholeStruct(vc, x.Addr, m) {
						m.all = true
						return
					}
				} else if al == nil {
					m.heaps[h] = true
				}
			case *ssa.MapUpdate:
				if mt, ok := x.Map.Type().Underlying().(*types.Map); ok {
					p, v, l := vc.mapHeaps(mt)
					m.heaps[p], m.heaps[v], m.heaps[l] = true, true, true
				}
			case ssa.CallInstruction:
				c := x.Common()
				if bi, ok := c.Value.(*ssa.Builtin); ok {
					switch bi.Name() {
					case "copy":
						if al, h, ok := vc.rootOfSliceVal(c.Args[0]); ok {
							if al == nil {
								m.heaps[h] = true
							}
						} else {
							m.all = true
							return
						}
					case "delete":
						if mt, ok := c.Args[0].Type().Underlying().(*types.Map); ok {
							p, v, l := vc.mapHeaps(mt)
							m.heaps[p], m.heaps[v], m.heaps[l] = true, true, true
						}
					}
					continue
				}
				if sm, ok := vc.specModSet(c); ok {
					if sm.all {
						m.all = true
						return
					}
					for h := range sm.heaps {
						m.heaps[h] = true
					}
					if sm.pureArgs {
						continue
					}
				} else if callee := c.StaticCallee(); callee != nil {
					e.modCollect(vc, callee, m, visited)
				} else {
					ts := e.dynamicTargets(c)
					if len(ts) == 0 && !c.IsInvoke() {
						m.all = true
						return
					}
					for _, t := range ts {
						e.modCollect(vc, t, m, visited)
					}
				}
				// by-ref args
				for _, a := range c.Args {
					if _, isP := a.Type().Underlying().(*types.Pointer); !isP {
						continue
					}
					switch a.(type) {
					case *ssa.FieldAddr, *ssa.IndexAddr:
						al, h, ok := vc.rootOfAddr(a)
						if !ok {
							if !e.wholeStruct(vc, a, m) {
								m.all = true
								return
							}
						} else if al == nil {
							m.heaps[h] = true
						}
					}
				}
			}
		}
	}
}

func (e *Engine) wholeStruct(vc *FnVC, addr ssa.Value, m *modSet) bool {
	if pt, ok := addr.Type().Underlying().(*types.Pointer); ok {
		if stt, ok := pt.Elem().Underlying().(*types.Struct); ok && !vc.sorts.StructOf(pt.Elem()).opaque && !isSyncType(pt.Elem()) {
			for i := 0; i < stt.NumFields(); i++ {
				h, _ := vc.fieldHeap(pt.Elem(), i)
				m.heaps[h] = true
			}
			return true
		}
	}
	return false
}

func pkgPathOf(f *ssa.Function) string {
	if f.Pkg != nil {
		return f.Pkg.Pkg.Path()
	}
	if o := f.Origin(); o != nil && o.Pkg != nil {
		return o.Pkg.Pkg.Path()
	}
	if f.Parent() != nil {
		return pkgPathOf(f.Parent())
	}
	if f.Object() != nil && f.Object().Pkg() != nil {
		return f.Object().Pkg().Path()
	}
	return ""
}

var _ = token.NoPos

// addGhostFollowers: a ghost field declared "follows f" may change whenever H:T.f may.
func (e *Engine) addGhostFollowers(vc *FnVC, m *modSet) {
	for tk, gs := range e.db.Ghosts {
		for _, g := range gs {
			if g.Follows == "" {
				continue
			}
			if m.heaps["H:"+tk+"."+g.Follows] {
				name := "H:" + tk + "." + g.Name
				e.regHeap(name, heapDesc{kind: "raw", raw: "(Array Int " + ghostSort(g.GoType) + ")"})
				m.heaps[name] = true
			}
		}
	}
}

// specFor returns the contract of a function: its own clauses plus those of a function-type contract
// whose signature it has (every such function must refine the function-type contract).
func (e *Engine) specFor(f *ssa.Function) (*FuncSpec, []string) {
	own := e.db.Funcs[e.keyOf(f)]
	if f.Signature.Recv() != nil || f.Parent() != nil {
		return own, nil
	}
	for key, ft := range e.db.Funcs {
		if ft.Kind != "functype" {
			continue
		}
		tn := strings.TrimPrefix(key, "functype:")
		sig := e.sigOfNamed(tn)
		if sig == nil || sigKey(sig) != sigKey(f.Signature) || !e.inRepo(f) {
			continue
		}
		if own != nil && own.Opaque {
			return own, nil
		}
		ft.Used = true
		merged := &FuncSpec{Key: e.keyOf(f), Kind: "func", File: ft.File, Line: ft.Line, Unclaimed: map[string]string{}, HasMods: ft.HasMods, Tags: ft.Tags}
		merged.Clauses = append(merged.Clauses, ft.Clauses...)
		if own != nil {
			merged.Clauses = append(merged.Clauses, own.Clauses...)
			merged.Inline = own.Inline
			merged.Tags = append(append([]string{}, ft.Tags...), own.Tags...)
			for k, v := range own.Unclaimed {
				merged.Unclaimed[k] = v
			}
			own.Used = true
		}
		return merged, ft.Params
	}
	return own, nil
}

func (e *Engine) sigOfNamed(tn string) *types.Signature {
	i := strings.LastIndex(tn, ".")
	if i < 0 {
		return nil
	}
	p := e.pkgByName(tn[:i])
	if p == nil {
		return nil
	}
	obj, ok := p.Scope().Lookup(tn[i+1:]).(*types.TypeName)
	if !ok {
		return nil
	}
	sig, _ := obj.Type().Underlying().(*types.Signature)
	return sig
}

// reachesWriter: can a call to f (transitively, through static and resolved dynamic calls) reach one of the declared
// writers of a field? Fields with a complete writers declaration (checked by the frame scan) are not modified otherwise.
func (e *Engine) reachesWriter(f *ssa.Function, writers map[string]bool) bool {
	seen := map[*ssa.Function]bool{}
	var dfs func(g *ssa.Function) bool
	dfs = func(g *ssa.Function) bool {
		if seen[g] {
			return false
		}
		seen[g] = true
		if writers[e.keyOf(g)] {
			return true
		}
		for _, h := range e.callees[g] {
			if dfs(h) {
				return true
			}
		}
		return false
	}
	return dfs(f)
}

// protectedHeaps: heap arrays with a writers declaration that a call to callee cannot modify.
func (e *Engine) protectedHeaps(callee *ssa.Function) []string {
	if callee == nil {
		return nil
	}
	var out []string
	for _, as := range e.db.Access {
		if as.Kind != "writers" {
			continue
		}
		w := map[string]bool{}
		for _, f := range as.Funcs {
			w[f] = true
		}
		if !e.reachesWriter(callee, w) {
			out = append(out, "H:"+as.Field)
		}
	}
	// ghost variables change only through contracts that mention them (ghostensures / modifies): a callee that cannot
	// reach such a function leaves them alone
	for g := range e.db.GhostVars {
		w := map[string]bool{}
		for key, sp := range e.db.Funcs {
			for _, cl := range sp.Clauses {
				if (cl.Kind == "ghostensures" || cl.Kind == "modifies") && strings.Contains(cl.Src, g) {
					w[key] = true
				}
			}
		}
		if len(w) > 0 && !e.reachesWriter(callee, w) {
			out = append(out, "G:ghost."+g)
		}
	}
	return out
}
