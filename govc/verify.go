package main

import (
	"fmt"
	"go/types"
	"sort"
	"strings"

	"golang.org/x/tools/go/ssa"
)

func (e *Engine) newVC(fn *ssa.Function) *FnVC {
	key := e.keyOf(fn)
	sp0, ftParams := e.specFor(fn)
	vc := &FnVC{eng: e, fn: fn, key: key, spec: sp0, ftParams: ftParams, sorts: NewSorts(e.db), declared: map[string]bool{},
		epMemo: map[string]string{}, assumes: map[string]bool{}, oblNames: map[string]int{}, tablesUsed: map[string]bool{}, specFnUsed: map[string]bool{}}
	return vc
}

// BuildVC generates the verification conditions of one function against its contract.
func (e *Engine) BuildVC(fn *ssa.Function) (vc *FnVC) {
	vc = e.newVC(fn)
	defer func() {
		if r := recover(); r != nil {
			if ee, ok := r.(evalErr); ok {
				e.specError("%s: %s", vc.key, string(ee))
				vc.unsupported("contract error: %s", string(ee))
				return
			}
			vc.unsupported("generator panic: %v", r)
		}
	}()
	S := vc.sorts
	if fn.Blocks == nil {
		vc.unsupported("no body")
		return vc
	}
	sp := vc.spec
	if sp != nil {
		sp.Used = true
		vc.curTags = sp.Tags
	}
	fr := newFrame(fn, 0, "")
	fr.spec = sp
	vc.top = fr
	st := &state{reach: "true", regs: map[*ssa.Alloc]string{}, heap: map[string]string{}, ep: vc.newEpoch()}
	st.alloc = vc.declare("alloc0", "Int")
	st.ep.alloc = "alloc0"
	vc.emit("(assert (> alloc0 0))")
	fr.params = map[string]val{}
	for _, p := range fn.Params {
		n := vc.declare(q("p:"+p.Name()), S.SortOf(p.Type()))
		vc.assume("true", S.RangeOf(p.Type(), n))
		v := val{t: n, typ: p.Type()}
		if isRefType(p.Type()) {
			vc.assume("true", fmt.Sprintf("(<= %s alloc0)", n))
		}
		fr.vals[p] = v
		fr.params[p.Name()] = v
	}
	for i, n := range vc.ftParams {
		if i < len(fn.Params) {
			fr.params[n] = fr.vals[fn.Params[i]]
		}
	}
	fr.params["self"] = val{t: vc.fnID(fn), typ: fn.Type(), fn: fn}
	for _, fv := range fn.FreeVars {
		n := vc.declare(q("fv:"+fv.Name()), "Int")
		vc.assume("true", fmt.Sprintf("(and (> %s 0) (<= %s alloc0))", n, n))
		v := val{t: n, typ: fv.Type()}
		fr.vals[fv] = v
		// free variables are pointers to captured cells; expose the captured variable by name
	}
	vc.old = st.clone()
	// param cells at entry, for old(x)
	if len(fn.Blocks) > 0 {
		for _, ins := range fn.Blocks[0].Instrs {
			if s, ok := ins.(*ssa.Store); ok {
				if a, ok := s.Addr.(*ssa.Alloc); ok && !a.Heap {
					if p, ok := s.Val.(*ssa.Parameter); ok {
						vc.old.regs[a] = fr.vals[p].t
					}
				}
			}
		}
	}
	if sp != nil {
		fr.lets = vc.declareLets(fr, sp, st, fr.params)
	}
	// invariants of package-level state (written only by initialisers: C16 global-store scan)
	for _, gi := range e.db.GlobalInvs {
		pkgName := strings.SplitN(gi.Name, ".", 2)[0]
		gfr := &frame{fn: fn, names: map[string]*ssa.Alloc{}}
		c := vc.newCtx(gfr, st, st, nil)
		if p := e.byName[pkgName]; p != nil {
			c.pkg = p.Pkg
		}
		func() {
			defer func() {
				if r := recover(); r != nil {
					if _, ok := r.(evalErr); !ok {
						panic(r)
					}
				}
			}()
			t := c.evalB(gi.E)
			vc.assume("true", t)
			vc.assumption("global invariant " + gi.Name + ": " + gi.Src + " (package-level variable written only by its initialiser)")
		}()
	}
	// preconditions
	if sp != nil {
		for _, c := range sp.Clauses {
			if c.Kind == "requires" {
				t := vc.evalBool(fr, st, st, c.E, fr.params)
				vc.assume("true", t)
			}
		}
	}
	// vacuity guard: preconditions + prelude must be satisfiable
	vc.emit(";;SMOKE-BEGIN")
	vc.emit("(echo \"@smoke\")")
	vc.emit("(check-sat)")
	vc.emit(";;SMOKE-END")
	vc.exec(fr, st)
	if len(fr.rets) == 0 {
		vc.note("function never returns normally")
		return vc
	}
	var es []edge
	for _, r := range fr.rets {
		es = append(es, edge{cond: r.cond, st: r.st})
	}
	fin := vc.mergeEdges(es, "ret")
	// results
	n := fn.Signature.Results().Len()
	var rs []val
	for i := 0; i < n; i++ {
		t := fn.Signature.Results().At(i).Type()
		var term string
		for k := len(fr.rets) - 1; k >= 0; k-- {
			rv := fr.rets[k].res[i].t
			if term == "" {
				term = rv
			} else if rv != term {
				term = fmt.Sprintf("(ite %s %s %s)", fr.rets[k].cond, rv, term)
			}
		}
		rs = append(rs, val{t: vc.define("ret", S.SortOf(t), term+"                                        "), typ: t})
	}
	for _, r := range rs {
		vc.retTerms = append(vc.retTerms, r.t)
	}
	vars := map[string]val{}
	for k, v := range fr.params {
		vars[k] = v
	}
	var res val
	if n == 1 {
		res = rs[0]
	} else if n > 1 {
		res = val{tup: rs}
	}
	vc.bindResults(vars, res, fn)
	if sp != nil {
		// postconditions are evaluated with parameter names bound to entry values
		pfr := &frame{fn: fn, names: map[string]*ssa.Alloc{}, spec: sp, vals: fr.vals, lets: fr.lets}
		vc.ghostExit(pfr, fin, sp, vars)
		if pl := vc.declareLetsP(pfr, sp, fin, vars, true); pl != nil {
			merged := map[string]val{}
			for k, v := range pfr.lets {
				merged[k] = v
			}
			for k, v := range pl {
				merged[k] = v
			}
			pfr.lets = merged
		}
		// declared number of delete sites per local map (a property leaves the map only where the contract says)
		for name, ds := range sp.DeleteSites {
			n := 0
			for _, b := range fn.Blocks {
				for _, ins := range b.Instrs {
					call, ok := ins.(ssa.CallInstruction)
					if !ok {
						continue
					}
					if bi, ok := call.Common().Value.(*ssa.Builtin); ok && bi.Name() == "delete" && len(call.Common().Args) == 2 {
						if u, ok := call.Common().Args[0].(*ssa.UnOp); ok {
							if a, ok := u.X.(*ssa.Alloc); ok && a.Comment == name {
								n++
							}
						}
					}
				}
			}
			cond := fmt.Sprintf("(= %d %d)", n, ds.N)
			tg := ds.Tags
			if len(tg) == 0 {
				tg = vc.tagsFor(fr, nil)
			}
			vc.oblige("delete-sites", fmt.Sprintf("%s:%d", name, ds.N), "true", cond, tg, "")
		}
		// exit cover: the normal exit must be reachable under the contracts used in the body (a contradiction between an
		// assumed callee contract and the heap typing makes everything after that call provable)
		vc.emit(";;EXIT-BEGIN")
		vc.emit("(push 1)")
		vc.emit("(assert %s)", fin.reach)
		vc.emit("(echo \"@exit\")")
		vc.emit("(check-sat)")
		vc.emit("(pop 1)")
		vc.emit(";;EXIT-END")
		// postconditions may mention parameters (entry values), results and lets only: local variables are not in scope
		for _, c := range sp.Clauses {
			if c.Kind != "ensures" {
				continue
			}
			parts := splitConj(c.E, e.db, 0)
			for k, pe := range parts {
				t := vc.evalBool(pfr, fin, vc.old, pe, vars)
				desc := c.Src
				if len(parts) > 1 {
					desc = fmt.Sprintf("%s/%d", shorten(c.Src, 48), k+1)
				}
				if e.covers {
					// cover of the antecedent: an implication whose antecedent can never hold at exit is vacuous
					if b, ok := pe.(*EBinary); ok && b.Op == "==>" {
						a := vc.evalBool(pfr, fin, vc.old, b.X, vars)
						vc.covers = append(vc.covers, desc)
						vc.emit("(push 1)")
						vc.emit("(assert (and %s %s))", fin.reach, a)
						vc.emit("(echo \"@cover %d\")", len(vc.covers)-1)
						vc.emit("(check-sat)")
						vc.emit("(pop 1)")
					}
				}
				vc.oblige("ensures", desc, fin.reach, t, vc.tagsFor(fr, c), fmt.Sprintf("%s:%d", c.File, c.Line))
			}
		}
		if sp.HasMods && !sp.NoFrame {
			vc.frameCheck(fr, fin, sp, vars)
		}
	}
	return vc
}

func isRefType(t types.Type) bool {
	switch t.Underlying().(type) {
	case *types.Pointer, *types.Map, *types.Chan:
		return true
	}
	return false
}

// frameCheck: everything not named in modifies is unchanged at return.
func (vc *FnVC) frameCheck(fr *frame, fin *state, sp *FuncSpec, vars map[string]val) {
	tags := vc.tagsFor(fr, nil)
	if fin.ep != vc.old.ep {
		// some path havocked the whole heap (unknown callee)
		vc.oblige("frame", "whole-heap", fin.reach, "false", tags, "")
		return
	}
	allowed := map[string][]string{} // heap name -> refs allowed ("*" = all)
	pfr := &frame{fn: fr.fn, names: map[string]*ssa.Alloc{}, spec: sp}
	c := vc.newCtx(pfr, vc.old, vc.old, vars)
	add := func(h, ref string) { allowed[h] = append(allowed[h], ref) }
	func() {
		defer func() {
			if r := recover(); r != nil {
				if ee, ok := r.(evalErr); ok {
					vc.eng.specError("%s: modifies: %s", vc.key, string(ee))
					return
				}
				panic(r)
			}
		}()
		for _, cl := range sp.Clauses {
			if cl.Kind != "modifies" {
				continue
			}
			for _, m := range cl.Mods {
				switch x := m.(type) {
				case *ESel:
					base := c.eval(x.X)
					pt := base.typ.Underlying().(*types.Pointer).Elem()
					stt := pt.Underlying().(*types.Struct)
					found := false
					for i := 0; i < stt.NumFields(); i++ {
						if stt.Field(i).Name() == x.Name {
							lv := vc.fieldAddr(base, i)
							add(lv.heap, lv.ref)
							found = true
						}
					}
					for _, g := range vc.eng.db.Ghosts[typeKey(pt)] {
						if g.Name == x.Name {
							h, _ := vc.ghostHeap(pt, g)
							add(h, base.t)
							found = true
						}
					}
					if !found {
						c.fail("no field %s", x.Name)
					}
				case *EUnary:
					p := c.eval(x.X)
					lv := vc.deref(p)
					if lv.heap == "$struct" {
						stt := lv.rtyp.Underlying().(*types.Struct)
						for i := 0; i < stt.NumFields(); i++ {
							h, _ := vc.fieldHeap(lv.rtyp, i)
							add(h, lv.ref)
						}
					} else {
						add(lv.heap, lv.ref)
					}
				case *ECall:
					id, _ := x.Fun.(*EIdent)
					if id != nil && id.Name == "mapof" {
						mv := c.eval(x.Args[0])
						mt := mv.typ.Underlying().(*types.Map)
						p, v, l := vc.mapHeaps(mt)
						add(p, mv.t)
						add(v, mv.t)
						add(l, mv.t)
					} else if id != nil && id.Name == "heap" {
						name := x.Args[0].String()
						if es, ok := x.Args[0].(*EStr); ok {
							name = es.V
						}
						for _, h := range vc.eng.heapNames() {
							if strings.HasSuffix(h, ":"+name) || strings.HasSuffix(h, "."+name) || strings.HasSuffix(h, "/"+name) {
								add(h, "*")
							}
						}
					}
				case *EIdent:
					if x.Name == "everything" {
						for _, h := range vc.eng.heapNames() {
							add(h, "*")
						}
					} else if _, ok := vc.eng.db.GhostVars[x.Name]; ok {
						add("G:ghost."+x.Name, "*")
					} else if c.pkg != nil {
						if v, ok := c.pkg.Scope().Lookup(x.Name).(*types.Var); ok {
							if g, ok := vc.eng.globalOf(v); ok {
								add(vc.globalHeap(g), "*")
							}
						}
					}
				}
			}
		}
	}()
	for _, h := range sortedKeys(fin.heap) {
		cur, was := fin.heap[h], vc.hget(vc.old, h)
		if cur == was {
			continue
		}
		refs := allowed[h]
		all := false
		for _, r := range refs {
			if r == "*" {
				all = true
			}
		}
		if all {
			continue
		}
		if strings.HasPrefix(h, "G:") {
			vc.oblige("frame", h, fin.reach, fmt.Sprintf("(= %s %s)", cur, was), tags, "")
			continue
		}
		r := vc.newName("r")
		var ex []string
		for _, a := range refs {
			ex = append(ex, fmt.Sprintf("(not (= %s %s))", r, a))
		}
		ex = append(ex, fmt.Sprintf("(<= %s alloc0)", r))
		vc.oblige("frame", h, fin.reach, fmt.Sprintf("(forall ((%s Int)) (=> (and %s) (= (select %s %s) (select %s %s))))", r, strings.Join(ex, " "), cur, r, was, r), tags, "")
	}
}

// Script assembles the SMT-LIB script.
func (vc *FnVC) Script(timeoutMs int, models bool) string {
	var sb strings.Builder
	sb.WriteString("; govc VC for " + vc.key + "\n")
	if models {
		sb.WriteString("(set-option :produce-models true)\n")
	}
	sb.WriteString("(set-logic ALL)\n")
	for _, d := range vc.sorts.decls {
		sb.WriteString(d + "\n")
	}
	e := vc.eng
	sb.WriteString("(declare-fun clo.fn (Int) Int)\n")
	sb.WriteString("(declare-fun bytes2str ((Slice Int)) String)\n(declare-fun str2bytes (String) (Slice Int))\n")
	// tables
	for _, name := range sortedKeys(vc.tablesUsed) {
		t := e.db.Tables[name]
		rs := "Int"
		if t.ResBool {
			rs = "Bool"
		}
		if t.ResStr {
			rs = "String"
		}
		fn := q("tbl:" + name)
		keys := e.tableDomain(t)
		ids := map[string]int{}
		for _, k := range keys {
			ids[k.name] = k.id
		}
		valOf := func(v string) string {
			if t.ResStr {
				return smtString(strings.Trim(v, "\""))
			}
			if id, ok := ids[v]; ok {
				return fmt.Sprint(id)
			}
			return smtInt(v)
		}
		if t.HasDef {
			// total definition: an ite chain over the function ids, default elsewhere
			body := valOf(t.Default)
			n := 0
			for i := len(keys) - 1; i >= 0; i-- {
				k := keys[i]
				if v, ok := t.Entries[k.name]; ok && v != t.Default {
					body = fmt.Sprintf("(ite (= x %d) %s %s)", k.id, valOf(v), body)
					n++
				}
			}
			fmt.Fprintf(&sb, "(define-fun %s ((x Int)) %s %s)\n", fn, rs, body)
			for name := range t.Entries {
				if _, ok := ids[name]; !ok {
					e.specError("table %s: %s is not a function of type %s", t.Name, name, t.KeyType)
				}
			}
			continue
		}
		fmt.Fprintf(&sb, "(declare-fun %s (Int) %s)\n", fn, rs)
		for _, k := range keys {
			if v, ok := t.Entries[k.name]; ok {
				fmt.Fprintf(&sb, "(assert (= (%s %d) %s))\n", fn, k.id, valOf(v))
			}
		}
	}
	for _, name := range sortedKeys(vc.specFnUsed) {
		sf := e.db.SpecFns[name]
		c := vc.newCtx(vc.top, vc.old, vc.old, nil)
		var ps []string
		for _, p := range sf.Params {
			t := c.resolveType(p.Type)
			if t == tMathInt {
				ps = append(ps, "Int")
			} else {
				ps = append(ps, vc.sorts.SortOf(t))
			}
		}
		rt := c.resolveType(sf.Result)
		rs := "Int"
		if rt != tMathInt {
			rs = vc.sorts.SortOf(rt)
		}
		fmt.Fprintf(&sb, "(declare-fun %s (%s) %s)\n", q("spec:"+name), strings.Join(ps, " "), rs)
	}
	for _, d := range vc.decl {
		sb.WriteString(d + "\n")
	}
	// axioms over used spec functions
	for _, ax := range e.db.Axioms {
		used := true
		walkExpr(ax.E, func(x Expr) {
			if c, ok := x.(*ECall); ok {
				if id, ok := c.Fun.(*EIdent); ok {
					if _, isSF := e.db.SpecFns[id.Name]; isSF && !vc.specFnUsed[id.Name] {
						used = false
					}
					if _, isT := e.db.Tables[id.Name]; isT && !vc.tablesUsed[id.Name] {
						used = false
					}
				}
			}
		})
		if !used {
			continue
		}
		nd := len(vc.decl)
		t := vc.evalBool(vc.top, vc.old, vc.old, ax.E, nil)
		for _, d := range vc.decl[nd:] {
			sb.WriteString(d + "\n")
		}
		fmt.Fprintf(&sb, "(assert %s) ; axiom %s\n", t, ax.Name)
		vc.assumption("axiom " + ax.Name + ": " + ax.Src)
	}
	for _, l := range vc.body {
		sb.WriteString(l + "\n")
	}
	return sb.String()
}

type tblKey struct {
	name string
	id   int
}

// tableDomain lists the functions whose signature matches the table's key type.
func (e *Engine) tableDomain(t *TableSpec) []tblKey {
	var out []tblKey
	var sig *types.Signature
	for _, p := range e.pkgs {
		if obj, ok := p.Pkg.Scope().Lookup(t.KeyType).(*types.TypeName); ok {
			if s, ok := obj.Type().Underlying().(*types.Signature); ok {
				sig = s
			}
		}
	}
	if sig == nil {
		// explicit entries only
		for name := range t.Entries {
			if obj := e.lookupGlobalName(name); obj != nil {
				if f, ok := obj.(*types.Func); ok {
					if fn := e.prog.FuncValue(f); fn != nil {
						out = append(out, tblKey{name, e.funcID(fn)})
					}
				}
			}
		}
		sort.Slice(out, func(i, j int) bool { return out[i].id < out[j].id })
		return out
	}
	sk := sigKey(sig)
	for _, f := range e.allFuncs {
		if e.inRepo(f) && f.Signature.Recv() == nil && f.Parent() == nil && sigKey(f.Signature) == sk {
			out = append(out, tblKey{f.Name(), e.funcID(f)})
		}
	}
	return out
}

func walkExpr(e Expr, f func(Expr)) {
	if e == nil {
		return
	}
	f(e)
	switch x := e.(type) {
	case *EUnary:
		walkExpr(x.X, f)
	case *EBinary:
		walkExpr(x.X, f)
		walkExpr(x.Y, f)
	case *ECond:
		walkExpr(x.C, f)
		walkExpr(x.A, f)
		walkExpr(x.B, f)
	case *ECall:
		walkExpr(x.Fun, f)
		for _, a := range x.Args {
			walkExpr(a, f)
		}
	case *ESel:
		walkExpr(x.X, f)
	case *EIndex:
		walkExpr(x.X, f)
		walkExpr(x.I, f)
	case *ESlice:
		walkExpr(x.X, f)
		walkExpr(x.Lo, f)
		walkExpr(x.Hi, f)
	case *EQuant:
		walkExpr(x.Body, f)
	}
}

// declareLets introduces the contract-local spec functions of sp (uninterpreted, with their defining axioms
// evaluated in state st, which is the pre-state of the call / the entry state of the function).
func (vc *FnVC) declareLets(fr *frame, sp *FuncSpec, st *state, vars map[string]val) map[string]val {
	return vc.declareLetsP(fr, sp, st, vars, false)
}

type letShape struct{ shape, name, reach string }

// declareLetsP declares the contract-local functions of the entry state (post == false) or of the exit state (letpost).
func (vc *FnVC) declareLetsP(fr *frame, sp *FuncSpec, st *state, vars map[string]val, post bool) map[string]val {
	n := 0
	for _, ls := range sp.Lets {
		if ls.Post == post {
			n++
		}
	}
	if n == 0 {
		return nil
	}
	lets := map[string]val{}
	c := vc.newCtx(fr, st, st, vars)
	for _, ls := range sp.Lets {
		if ls.Post != post {
			continue
		}
		name := vc.newName("let:" + ls.Name)
		var ps []string
		for _, p := range ls.Params {
			t := c.resolveType(p.Type)
			if t == tMathInt {
				ps = append(ps, "Int")
			} else {
				ps = append(ps, vc.sorts.SortOf(t))
			}
		}
		rt := c.resolveType(ls.Result)
		rs := "Int"
		if rt != tMathInt {
			rs = vc.sorts.SortOf(rt)
		}
		vc.declared[name] = true
		vc.decl = append(vc.decl, fmt.Sprintf("(declare-fun %s (%s) %s)", name, strings.Join(ps, " "), rs))
		lets["let$"+ls.Name] = val{t: name, let: ls}
	}
	all := map[string]val{}
	for k, v := range vars {
		all[k] = v
	}
	for k, v := range lets {
		all[k] = v
	}
	for _, ls := range sp.Lets {
		if ls.Post != post {
			continue
		}
		var axs []string
		for _, ax := range ls.Axioms {
			axs = append(axs, vc.evalBool(fr, st, st, ax, all))
		}
		// Two contract-local functions with the same defining axioms over the same state terms are the same function
		// (each contract holds for every function satisfying its axioms, so one witness may serve both): this is what
		// lets a caller's letpost chain meet the chain of a callee's contract without an induction.
		name := lets["let$"+ls.Name].t
		key := strings.ReplaceAll(strings.Join(axs, "\n"), name, "$LET")
		if vc.letMemo == nil {
			vc.letMemo = map[string]string{}
		}
		if prev, ok := vc.letMemo[key]; ok && !strings.Contains(key, "unreadable") {
			v := lets["let$"+ls.Name]
			v.t = prev
			lets["let$"+ls.Name] = v
			all["let$"+ls.Name] = v
			continue
		}
		vc.letMemo[key] = name
		for _, t := range axs {
			vc.assume(st.reach, t)
		}
		// Induction schema instance: a function defined earlier in this VC by axioms of the same shape (the chain of a
		// callee's contract, say) agrees with this one on all k >= 0 if they agree at 0 and agreement is inherited from k
		// to k+1. The instance is a valid formula of arithmetic; the solver has to establish its premises.
		if len(ls.Params) == 1 && ls.Params[0].Type == "int" {
			var shape []string
			for _, ax := range ls.Axioms {
				shape = append(shape, strings.ReplaceAll(ax.String(), ls.Name+"(", "$F("))
			}
			sk := strings.Join(shape, ";")
			for _, prev := range vc.letShapes {
				if prev.shape != sk || prev.name == name {
					continue
				}
				pc := fmt.Sprintf("(and %s %s)", prev.reach, st.reach)
				k := vc.newName("ik")
				P := func(i string) string { return fmt.Sprintf("(=> %s (= (%s %s) (%s %s)))", pc, prev.name, i, name, i) }
				vc.emit("(assert (=> (and %s (forall ((%s Int)) (=> (and (>= %s 0) %s) %s))) (forall ((%s Int)) (=> (>= %s 0) %s))))",
					P("0"), k, k, P(k), P(fmt.Sprintf("(+ %s 1)", k)), k, k, P(k))
			}
			vc.letShapes = append(vc.letShapes, letShape{shape: sk, name: name, reach: st.reach})
		}
	}
	vc.assumption("contract-local spec functions (let / letpost) are total functions of the pre-state (exit state) defined by their axioms")
	return lets
}

// ghostExit applies the ghost updates declared by ghostensures at function exit (ghost code has no body statement):
// the ghost locations named in modifies are havocked and the ghostensures are assumed, before ensures are checked.
func (vc *FnVC) ghostExit(pfr *frame, fin *state, sp *FuncSpec, vars map[string]val) {
	has := false
	for _, c := range sp.Clauses {
		if c.Kind == "ghostensures" {
			has = true
		}
	}
	if !has || sp.Kind == "functype" {
		return
	}
	for _, cl := range sp.Clauses {
		if cl.Kind != "modifies" {
			continue
		}
		for _, m := range cl.Mods {
			if vc.isGhostLoc(pfr, m, vars) {
				vc.havocExpr(pfr, fin, vc.old, m, vars)
			}
		}
	}
	for _, c := range sp.Clauses {
		if c.Kind == "ghostensures" {
			t := vc.evalBool(pfr, fin, vc.old, c.E, vars)
			vc.assume(fin.reach, t)
			vc.assumption("ghost update at exit of " + vc.key + ": " + c.Src)
		}
	}
}

func (vc *FnVC) isGhostLoc(pfr *frame, m Expr, vars map[string]val) bool {
	sel, ok := m.(*ESel)
	if !ok {
		return false
	}
	for _, gs := range vc.eng.db.Ghosts {
		for _, g := range gs {
			if g.Name == sel.Name {
				return true
			}
		}
	}
	return false
}
