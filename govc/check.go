package main

// `govc check <Cnn> <quick|thorough>`: decide one property, write evidence, print VIOLATION / KNOWN-FINDING lines.

import (
	"context"
	"encoding/json"
	"fmt"
	"go/types"
	"os"
	"os/exec"
	"path/filepath"
	"sort"
	"strings"
	"time"

	"golang.org/x/tools/go/ssa"
)

type finding struct {
	kind, prop, key, text string
}

func loadFindings(path string) []finding {
	data, err := os.ReadFile(path)
	if err != nil {
		return nil
	}
	var out []finding
	for _, l := range strings.Split(string(data), "\n") {
		l = strings.TrimSpace(l)
		if l == "" || strings.HasPrefix(l, "#") {
			continue
		}
		kind, rest := splitFirst(l)
		kind = strings.TrimSuffix(kind, ":")
		f := finding{kind: kind}
		for _, w := range strings.Fields(rest) {
			if strings.HasPrefix(w, "property=") {
				f.prop = strings.TrimPrefix(w, "property=")
			}
		}
		if i := strings.Index(rest, "obligation="); i >= 0 {
			r := rest[i+len("obligation="):]
			if strings.HasPrefix(r, "\"") {
				if j := strings.Index(r[1:], "\""); j >= 0 {
					f.key = r[1 : 1+j]
					r = r[j+2:]
				}
			} else {
				k, rr := splitFirst(r)
				f.key, r = k, rr
			}
			f.text = strings.TrimSpace(r)
		} else {
			f.text = rest
		}
		out = append(out, f)
	}
	return out
}

type Evidence struct {
	PropertyID  string         `json:"property_id"`
	Tier        string         `json:"tier"`
	Seed        int            `json:"seed"`
	Level       string         `json:"level"`
	Coverage    map[string]any `json:"coverage"`
	Assumptions []string       `json:"assumptions"`
	WallS       float64        `json:"wall_s"`
	Violations  int            `json:"violations"`
}

type checkCtx struct {
	e          *Engine
	prop       string
	tier       string
	perMs      int
	dir        string
	results    []*FnResult
	extra      []*Obligation // obligations from lemmas, scans, bounded deciders
	bounded    []map[string]any
	assume     map[string]bool
	notes      []string
	broken     []string
	unverified map[string][]string
	t0         time.Time
}

func cmdCheck(args []string) {
	if len(args) < 2 {
		fmt.Fprintln(os.Stderr, "usage: govc check <Cnn> <quick|thorough>")
		os.Exit(2)
	}
	prop, tier := args[0], args[1]
	verif := envOr("GOVC_VERIF", "/verif")
	repo := envOr("GOVC_REPO", "/repo")
	t0 := time.Now()
	e, err := LoadEngine(repo, verif)
	if err != nil {
		fmt.Fprintln(os.Stderr, "govc: cannot load /repo:", err)
		os.Exit(2)
	}
	cc := &checkCtx{e: e, prop: prop, tier: tier, perMs: 10000, assume: map[string]bool{}, unverified: map[string][]string{}, t0: t0}
	if tier == "thorough" {
		cc.perMs = 60000
	}
	dir, _ := os.MkdirTemp("", "govc-"+prop+"-")
	if os.Getenv("GOVC_KEEP") == "" {
		defer os.RemoveAll(dir)
	} else {
		fmt.Println("keeping", dir)
	}
	cc.dir = dir
	solvers := []string{"z3new", "cvc5", "z3"}
	fns := e.selectFuncs(nil, prop, prop == "C01" && tier == "thorough" && os.Getenv("GOVC_SWEEP") != "")
	cc.results = e.verifyAll(fns, dir, cc.perMs, solvers, tier == "thorough", 16)
	if jobs, skipped := e.pairJobs(prop, nil); len(jobs) > 0 || len(skipped) > 0 {
		per := 2000
		if tier == "thorough" {
			per = 20000
		}
		cc.results = append(cc.results, e.verifyPairs(jobs, dir, per, solvers, tier == "thorough", 16)...)
		for k, r := range skipped {
			cc.notes = append(cc.notes, "two-run lemma not claimed for "+k+": "+r)
		}
		cc.assume["two-run lemmas: calls that are not inlined are abstracted as deterministic functions of their arguments and of the receiver fields listed in the equiv declaration (same callee, related arguments, equal pre-state fields => equal post-state fields and results of equal nil-ness); this is the lemma itself for callees of the same function type (induction on call depth) and an assumption for the other helpers"] = true
		cc.assume["two-run lemmas: single-run obligations (bounds, nil, callee preconditions) are not re-checked in the two-run VCs; they are proved by the one-run contracts of the same functions (C01/C14)"] = true
	}
	cc.propertySpecific()
	os.Exit(cc.report())
}

func (cc *checkCtx) report() int {
	e := cc.e
	verif := e.verif
	findings := loadFindings(filepath.Join(verif, "known_findings.txt"))
	var all, claimed, failing []*Obligation
	perBackend := map[string]int{}
	var solverTime float64
	fnsUnder := []string{}
	var samples []any
	for _, r := range cc.results {
		vc := r.VC
		solverTime += r.Secs
		n := 0
		for _, o := range vc.obls {
			if !hasTag(o.Tags, cc.prop) {
				continue
			}
			n++
			all = append(all, o)
		}
		if n > 0 {
			fnsUnder = append(fnsUnder, vc.key)
		}
		if len(vc.unsup) > 0 {
			cc.unverified[vc.key] = vc.unsup
		}
		if r.Smoke == "unsat" {
			cc.broken = append(cc.broken, fmt.Sprintf("vacuity: preconditions/axioms of %s are contradictory", vc.key))
		}
		if r.Exit == "unsat" && r.Smoke != "unsat" && n > 0 {
			cc.broken = append(cc.broken, fmt.Sprintf("vacuity: the normal exit of %s is unreachable under the contracts it uses (its postconditions hold vacuously)", vc.key))
		}
		for _, d := range r.Disagree {
			cc.broken = append(cc.broken, "solver disagreement: "+d)
		}
		for a := range vc.assumes {
			cc.assume[a] = true
		}
		for _, nte := range vc.notes {
			cc.assume["abstraction: "+nte] = true
		}
	}
	all = append(all, cc.extra...)
	unclaimed := []string{}
	for _, o := range all {
		if o.Unclaimed != "" {
			unclaimed = append(unclaimed, o.Name+" -- "+o.Unclaimed)
			continue
		}
		// obligations of functions outside the subset are not counted as proved
		if us, bad := cc.unverified[o.Fn]; bad && o.Result == "unsat" {
			unclaimed = append(unclaimed, o.Name+" -- function outside the modelled subset: "+strings.Join(us, "; "))
			continue
		}
		claimed = append(claimed, o)
		if o.Result != "unsat" {
			failing = append(failing, o)
		} else {
			for _, s := range strings.Split(o.Solver, "+") {
				perBackend[s]++
			}
		}
	}
	for _, s := range e.specErrs {
		cc.broken = append(cc.broken, "contract error: "+s)
	}
	sort.Slice(claimed, func(i, j int) bool { return claimed[i].Name < claimed[j].Name })
	for i, o := range claimed {
		if i%maxInt(1, len(claimed)/12) == 0 && len(samples) < 16 {
			samples = append(samples, map[string]any{"obligation": o.Name, "result": o.Result, "solver": o.Solver, "pos": o.Pos})
		}
	}
	exit := 0
	var replayStart time.Time
	known := []string{}
	violations := 0
	os.MkdirAll(filepath.Join(verif, "replay"), 0o755)
	for _, o := range failing {
		matched := false
		for _, f := range findings {
			if strings.HasPrefix(o.Name, "bounded:") && !o.knownOnly {
				break // a new failing input of a bounded claim is never covered by a listed class
			}
			if f.kind == "finding" && f.prop == cc.prop && f.key == o.Name {
				fmt.Printf("KNOWN-FINDING: property=%s %s %s\n", cc.prop, o.Name, f.text)
				known = append(known, o.Name)
				matched = true
				break
			}
		}
		if matched {
			continue
		}
		violations++
		exit = 1
		maxReplays, replayBudget := 3, 150*time.Second
		if cc.tier == "thorough" {
			maxReplays, replayBudget = 8, 900*time.Second
		}
		if replayStart.IsZero() {
			replayStart = time.Now()
		}
		if violations > maxReplays || time.Since(replayStart) > replayBudget {
			// replay budget: further violations are reported without a model search
			fmt.Printf("VIOLATION property=%s replay=%s obligation=%q result=%s no-failing-input-found\n", cc.prop, filepath.Join(verif, "replay", "budget-exceeded.json"), o.Name, o.Result)
			continue
		}
		path, confirmed := cc.replay(o)
		if confirmed {
			fmt.Printf("VIOLATION property=%s replay=%s\n", cc.prop, path)
		} else {
			fmt.Printf("VIOLATION property=%s replay=%s obligation=%q result=%s no-failing-input-found\n", cc.prop, path, o.Name, o.Result)
		}
	}
	if len(cc.broken) > 0 {
		for _, b := range cc.broken {
			fmt.Println("CHECK-BROKEN:", b)
		}
		if exit == 0 {
			exit = 2
		}
	}
	discharged := len(claimed) - len(failing)
	level := "proof"
	nProof := 0
	for _, o := range claimed {
		if o.Kind != "bounded" && o.Kind != "bounded-known" {
			nProof++
		}
	}
	if nProof == 0 && len(cc.bounded) > 0 {
		level = "exploration"
	}
	assumptions := sortedKeys(cc.assume)
	assumptions = append(assumptions,
		"trusted: go/packages+go/types+go/ssa (x/tools v0.29.0) source-to-SSA translation; the govc VC generator and its Go semantics (DESIGN.md 2.2); SMT solvers z3 4.8.12, z3 5.1.0, cvc5 1.0.3",
		"slices are modelled with value semantics (DESIGN.md 2.2): aliasing between distinct slice values sharing a backing array is not modelled",
		"machine integers are modelled with wrap-around (not idealised); termination is proved only where a decreases clause is present")
	cov := map[string]any{
		"obligations":              len(claimed) - len(known),
		"discharged":               discharged,
		"checker_cmd":              fmt.Sprintf("bin/govc check %s %s  (VCs from go/ssa of /repo working tree; solvers z3-new, cvc5, z3; per-obligation timeout %d ms)", cc.prop, cc.tier, cc.perMs),
		"trusted_base":             []string{"golang.org/x/tools v0.29.0 go/ssa", "govc VC generator", "z3 5.1.0", "cvc5 1.0.3", "z3 4.8.12"},
		"functions_under_contract": fnsUnder,
		"per_backend":              perBackend,
		"solver_time_s":            solverTime,
		"samples":                  samples,
		"unclaimed_obligations":    unclaimed,
		"unverified_functions":     cc.unverified,
		"known_findings_seen":      known,
		"bounded":                  cc.bounded,
		"notes":                    cc.notes,
	}
	if len(claimed)-len(known) == 0 {
		cov["obligations"] = 0
	}
	ev := Evidence{PropertyID: cc.prop, Tier: cc.tier, Seed: 0, Level: level, Coverage: cov, Assumptions: assumptions, WallS: time.Since(cc.t0).Seconds(), Violations: violations}
	cc.finishEvidence(&ev)
	os.MkdirAll(filepath.Join(verif, "evidence"), 0o755)
	data, _ := json.MarshalIndent(ev, "", " ")
	os.WriteFile(filepath.Join(verif, "evidence", cc.prop+".json"), data, 0o644)
	fmt.Printf("%s %s: %d obligations claimed, %d discharged, %d known findings, %d violations, %d unclaimed, %d functions, %.1fs\n",
		cc.prop, cc.tier, len(claimed), discharged, len(known), violations, len(unclaimed), len(fnsUnder), time.Since(cc.t0).Seconds())
	return exit
}

func maxInt(a, b int) int {
	if a > b {
		return a
	}
	return b
}

// finishEvidence adapts level-specific keys (bounded-only properties are reported as exploration).
func (cc *checkCtx) finishEvidence(ev *Evidence) {
	if len(cc.bounded) > 0 {
		ev.Coverage["exhaustive"] = true
		if ev.Level == "exploration" {
			var rules []string
			var samples []any
			for _, b := range cc.bounded {
				rules = append(rules, fmt.Sprintf("%v: %v", b["id"], b["rule"]))
				if ss, ok := b["samples"].([]any); ok {
					for _, x := range ss {
						if len(samples) < 12 {
							samples = append(samples, x)
						}
					}
				}
			}
			ev.Coverage["rule"] = "BOUNDED stand-in (exhaustive execution of the real functions, injected in-package test): " + strings.Join(rules, " || ")
			if len(samples) > 0 {
				ev.Coverage["samples"] = samples
			}
		}
		evals, distinct := 0, 0
		for _, b := range cc.bounded {
			if v, ok := b["evaluations"].(int); ok {
				evals += v
			}
			if v, ok := b["distinct_nontrivial"].(int); ok {
				distinct += v
			}
		}
		ev.Coverage["evaluations"] = evals
		ev.Coverage["distinct_nontrivial"] = distinct
	}
}

// propertySpecific runs deciders that are not per-function VCs (lemmas, scans, bounded stand-ins).
func (cc *checkCtx) propertySpecific() {
	cc.runLemmas()
	cc.runAccessScans()
	cc.runLockScan()
	cc.runBounded()
	if cc.prop == "C03" {
		cc.runNondetScan()
	}
}

// runNondetScan: no source of nondeterminism in repository code (goroutines, select, clocks, random numbers,
// pointer-to-integer conversions). One obligation; every offending site is listed.
func (cc *checkCtx) runNondetScan() {
	e := cc.e
	var bad []string
	nfn := 0
	for _, fn := range e.allFuncs {
		if !e.inRepo(fn) || fn.Blocks == nil {
			continue
		}
		nfn++
		for _, b := range fn.Blocks {
			for _, ins := range b.Instrs {
				switch x := ins.(type) {
				case *ssa.Go, *ssa.Select:
					bad = append(bad, fmt.Sprintf("%s: %T at %s", e.keyOf(fn), ins, cc.posOfIns(ins)))
				case *ssa.Convert:
					if _, isP := x.X.Type().Underlying().(*types.Pointer); isP {
						if bt, ok := x.Type().Underlying().(*types.Basic); ok && bt.Info()&types.IsInteger != 0 {
							bad = append(bad, fmt.Sprintf("%s: pointer converted to integer at %s", e.keyOf(fn), cc.posOfIns(ins)))
						}
					}
				case ssa.CallInstruction:
					if f := x.Common().StaticCallee(); f != nil && f.Pkg != nil {
						p := f.Pkg.Pkg.Path()
						if strings.Contains(f.String(), "sync.Pool") {
							bad = append(bad, fmt.Sprintf("%s: sync.Pool (state shared between runs) at %s", e.keyOf(fn), cc.posOfIns(ins)))
						}
						if p == "math/rand" || p == "crypto/rand" || (p == "time" && (f.Name() == "Now" || f.Name() == "Since")) {
							bad = append(bad, fmt.Sprintf("%s: call to %s.%s at %s", e.keyOf(fn), p, f.Name(), cc.posOfIns(ins)))
						}
					}
				}
			}
		}
	}
	o := &Obligation{Name: "scan:nondeterminism-sources", Kind: "scan", Tags: []string{"C03"}, Fn: "scan", Solver: "ssa-scan", Result: "unsat",
		Desc: fmt.Sprintf("%d functions scanned: no go/select statement, clock, random source, sync.Pool or pointer-to-integer conversion", nfn)}
	if len(bad) > 0 {
		o.Result = "sat"
		o.Desc = strings.Join(bad, "; ")
	}
	cc.extra = append(cc.extra, o)
}

var boundedPkgs = map[string][]string{ // property -> packages with a bounded harness (bounded/<pkg>_bounded_test.go)
	"C13": {"core"}, "C15": {"core", "catalog"}, "C17": {"directive"}, "C19": {"catalog"},
}

// runBounded executes the bounded stand-ins (exhaustive execution of the REAL functions up to a stated bound; the
// harness is injected with go test -overlay). They are labelled bounded and never counted as proved.
func (cc *checkCtx) runBounded() {
	pkgs := boundedPkgs[cc.prop]
	if len(pkgs) == 0 {
		return
	}
	e := cc.e
	classes := map[string]string{}
	for _, f := range loadFindings(filepath.Join(e.verif, "known_findings.txt")) {
		if f.kind == "finding" && strings.HasPrefix(f.key, "bounded:") {
			if i := strings.Index(f.text, "class="); i >= 0 {
				rest := f.text[i+len("class="):]
				if strings.HasPrefix(rest, "`") {
					if j := strings.Index(rest[1:], "`"); j >= 0 {
						classes[strings.TrimPrefix(f.key, "bounded:")] = rest[1 : 1+j]
					}
				}
			}
		}
	}
	cj, _ := json.Marshal(classes)
	repl := map[string]string{}
	var targets []string
	for _, p := range pkgs {
		repl[filepath.Join(e.repo, p, "zz_bounded_test.go")] = filepath.Join(e.verif, "bounded", p+"_bounded_test.go")
		targets = append(targets, "./"+p)
	}
	ov, _ := json.Marshal(map[string]any{"Replace": repl})
	ovf := filepath.Join(cc.dir, "bounded_ov.json")
	os.WriteFile(ovf, ov, 0o644)
	ctx, cancel := context.WithTimeout(context.Background(), 30*time.Minute)
	defer cancel()
	cmd := exec.CommandContext(ctx, "bash", "-c", fmt.Sprintf("cd %q && go test -overlay %q -vet=off -count=1 -timeout 25m -run '^TestBounded%s$' -v %s 2>&1", e.repo, ovf, cc.prop, strings.Join(targets, " ")))
	cmd.Env = append(os.Environ(), "GOFLAGS=-mod=mod", "GOPROXY=off", "GOSUMDB=off", "GOTOOLCHAIN=local", "GOVC_BOUND_TIER="+cc.tier, "GOVC_KNOWN_CLASSES="+string(cj))
	out, _ := cmd.CombinedOutput()
	n := 0
	for _, line := range strings.Split(string(out), "\n") {
		i := strings.Index(line, "BOUNDED ")
		if i < 0 {
			continue
		}
		var r map[string]any
		if json.Unmarshal([]byte(line[i+8:]), &r) != nil {
			continue
		}
		if r["prop"] != cc.prop {
			continue
		}
		n++
		id, _ := r["id"].(string)
		viol, _ := r["violations"].(float64)
		known, _ := r["known_finding_instances"].(float64)
		evals, _ := r["evaluations"].(float64)
		dist, _ := r["distinct_nontrivial"].(float64)
		cc.bounded = append(cc.bounded, map[string]any{"id": id, "evaluations": int(evals), "distinct_nontrivial": int(dist), "rule": r["rule"],
			"exhaustive": r["exhaustive"], "samples": r["samples"], "violations": int(viol), "known_finding_instances": int(known), "label": "BOUNDED stand-in, not a proof"})
		o := &Obligation{Name: "bounded:" + id, Kind: "bounded", Tags: []string{cc.prop}, Fn: "bounded", Solver: "bounded-exhaustive-execution", Result: "unsat",
			Desc: fmt.Sprintf("%v", r["rule"])}
		if viol > 0 {
			o.Result = "sat"
			o.Desc = fmt.Sprintf("%v -- first failing inputs: %v", r["rule"], r["witnesses"])
			o.witness = fmt.Sprintf("%v", r["witnesses"])
		}
		cc.extra = append(cc.extra, o)
		if known > 0 {
			cc.extra = append(cc.extra, &Obligation{Name: "bounded:" + id, Kind: "bounded-known", Tags: []string{cc.prop}, Fn: "bounded", Solver: "bounded-exhaustive-execution", Result: "sat",
				Desc: fmt.Sprintf("%d instances of the listed known-finding class, e.g. %v", int(known), r["known_finding_example"]), knownOnly: true})
		}
	}
	if n == 0 {
		cc.broken = append(cc.broken, "bounded decider produced no report: "+truncate(string(out), 600))
	}
}

// runAccessScans: frame scans over the SSA of the whole repository. A field with a readers/writers declaration may
// only be read/written by the listed functions; package-level variables may only be written by initialisers and the
// listed functions. Each offending function is a failing obligation named after it.
func (cc *checkCtx) runAccessScans() {
	e := cc.e
	for _, as := range e.db.Access {
		if !hasTag(as.Tags, cc.prop) {
			continue
		}
		allowed := map[string]bool{}
		for _, f := range as.Funcs {
			allowed[f] = true
		}
		offenders := map[string]string{}
		nsites := 0
		for _, fn := range e.allFuncs {
			if !e.inRepo(fn) || fn.Blocks == nil {
				continue
			}
			key := e.keyOf(fn)
			for _, b := range fn.Blocks {
				for _, ins := range b.Instrs {
					switch as.Kind {
					case "readers", "writers":
						fa, ok := ins.(*ssa.FieldAddr)
						if !ok {
							continue
						}
						pt := fa.X.Type().Underlying().(*types.Pointer).Elem()
						if typeKey(pt)+"."+fieldName(fa.X.Type(), fa.Field) != as.Field {
							continue
						}
						reads, writes := false, false
						for _, r := range *fa.Referrers() {
							switch u := r.(type) {
							case *ssa.Store:
								if u.Addr == fa {
									writes = true
								} else {
									reads = true
								}
							default:
								reads = true
							}
						}
						if as.Kind == "readers" && reads || as.Kind == "writers" && writes {
							nsites++
							if !allowed[key] {
								offenders[key] = cc.posOfIns(ins)
							}
						}
					case "callers":
						ci, ok := ins.(ssa.CallInstruction)
						if !ok {
							continue
						}
						callee := ci.Common().StaticCallee()
						if callee == nil {
							// the function used as a value (closure, method value) counts as a call site too
							hit := false
							for _, op := range ins.Operands(nil) {
								if op != nil && *op != nil {
									if f, isF := (*op).(*ssa.Function); isF && e.keyOf(f) == as.Field {
										hit = true
									}
								}
							}
							if !hit {
								continue
							}
						} else if e.keyOf(callee) != as.Field {
							continue
						}
						nsites++
						if !allowed[key] {
							offenders[key] = cc.posOfIns(ins)
						}
					case "mapranges":
						rg, ok := ins.(*ssa.Range)
						if !ok {
							continue
						}
						if _, isMap := rg.X.Type().Underlying().(*types.Map); !isMap {
							continue
						}
						nsites++
						if !allowed[key] {
							offenders[key] = cc.posOfIns(ins)
						} else if why := mapRangeOnlyCollectsKeys(rg); why != "" {
							offenders[key+" ("+why+")"] = cc.posOfIns(ins)
						}
					case "globalwriters":
						var addr ssa.Value
						switch u := ins.(type) {
						case *ssa.Store:
							addr = u.Addr
						case *ssa.MapUpdate:
							addr = u.Map
						case ssa.CallInstruction:
							// the address of a package-level variable (or of a part of it) handed to a call, e.g. a method
							// of a sync.Map / sync.Once variable: the callee may write through it
							for _, a := range append([]ssa.Value{u.Common().Value}, u.Common().Args...) {
								if a == nil {
									continue
								}
								if _, isPtr := a.Type().Underlying().(*types.Pointer); !isPtr {
									continue
								}
								if g := addrOfGlobal(a); g != nil && e.inRepoPkg(g.Pkg) {
									nsites++
									if fn.Name() != "init" && !strings.HasPrefix(fn.Name(), "init#") && !allowed[key] {
										offenders[key+" passes the address of "+g.Name()] = cc.posOfIns(ins)
									}
								}
							}
							continue
						default:
							continue
						}
						if g := globalRoot(addr); g != nil && e.inRepoPkg(g.Pkg) {
							nsites++
							if fn.Name() != "init" && !strings.HasPrefix(fn.Name(), "init#") && !allowed[key] {
								offenders[key+" writes "+g.Name()] = cc.posOfIns(ins)
							}
						}
					}
				}
			}
		}
		name := fmt.Sprintf("scan:%s#%s@%s", as.Kind, as.Kind, as.Field)
		if len(offenders) == 0 {
			cc.extra = append(cc.extra, &Obligation{Name: name, Kind: "scan", Tags: as.Tags, Fn: "scan", Result: "unsat", Solver: "ssa-scan",
				Desc: fmt.Sprintf("%d access sites, all in the declared functions", nsites), Pos: fmt.Sprintf("%s:%d", as.File, as.Line)})
			continue
		}
		for _, k := range sortedKeys(offenders) {
			cc.extra = append(cc.extra, &Obligation{Name: name + ":" + k, Kind: "scan", Tags: as.Tags, Fn: "scan", Result: "sat", Solver: "ssa-scan",
				Desc: "undeclared " + as.Kind + " access in " + k + " at " + offenders[k], Pos: offenders[k]})
		}
	}
}

// runLockScan (C16): a method of a type with mutex-guarded fields enters at most ONE critical section. The contracts are
// sequential (each call is judged from its own entry state), so "check under the read lock, release, act under the write
// lock" satisfies them while losing atomicity; the scan counts the acquisition sites of each method - direct
// Lock/RLock calls on a sync.RWMutex plus calls to methods of the same type that acquire the lock themselves.
func (cc *checkCtx) runLockScan() {
	if cc.prop != "C16" {
		return
	}
	e := cc.e
	guardedTypes := map[string]bool{}
	for k := range e.db.Guarded {
		if i := strings.LastIndex(k, "."); i > 0 {
			guardedTypes[k[:i]] = true
		}
	}
	recvType := func(fn *ssa.Function) string {
		if fn.Signature.Recv() == nil {
			return ""
		}
		t := fn.Signature.Recv().Type()
		if p, ok := t.Underlying().(*types.Pointer); ok {
			t = p.Elem()
		}
		return typeKey(t)
	}
	isAcquire := func(c *ssa.CallCommon) bool {
		f := c.StaticCallee()
		if f == nil || f.Signature.Recv() == nil {
			return false
		}
		return (f.Name() == "Lock" || f.Name() == "RLock") && strings.Contains(f.Signature.Recv().Type().String(), "sync.RWMutex")
	}
	lockers := map[*ssa.Function]bool{}
	var methods []*ssa.Function
	for _, fn := range e.allFuncs {
		if !e.inRepo(fn) || fn.Blocks == nil || !guardedTypes[recvType(fn)] {
			continue
		}
		methods = append(methods, fn)
		for _, b := range fn.Blocks {
			for _, ins := range b.Instrs {
				if ci, ok := ins.(ssa.CallInstruction); ok && isAcquire(ci.Common()) {
					lockers[fn] = true
				}
			}
		}
	}
	sort.Slice(methods, func(i, j int) bool { return e.keyOf(methods[i]) < e.keyOf(methods[j]) })
	bad := 0
	for _, fn := range methods {
		n := 0
		pos := ""
		for _, b := range fn.Blocks {
			for _, ins := range b.Instrs {
				ci, ok := ins.(ssa.CallInstruction)
				if !ok {
					continue
				}
				if _, isDefer := ins.(*ssa.Defer); isDefer {
					continue
				}
				c := ci.Common()
				if isAcquire(c) {
					n++
					pos = cc.posOfIns(ins)
				} else if f := c.StaticCallee(); f != nil && lockers[f] && recvType(f) == recvType(fn) {
					n++
					pos = cc.posOfIns(ins)
				}
			}
		}
		if n > 1 {
			bad++
			cc.extra = append(cc.extra, &Obligation{Name: "scan:single-critical-section#" + e.keyOf(fn), Kind: "scan", Tags: []string{"C16"}, Fn: "scan", Result: "sat", Solver: "ssa-scan",
				Desc: fmt.Sprintf("%s acquires the collection's mutex at %d sites (check-then-act over two critical sections is not atomic)", e.keyOf(fn), n), Pos: pos})
		}
	}
	if bad == 0 {
		cc.extra = append(cc.extra, &Obligation{Name: "scan:single-critical-section", Kind: "scan", Tags: []string{"C16"}, Fn: "scan", Result: "unsat", Solver: "ssa-scan",
			Desc: fmt.Sprintf("%d methods of mutex-guarded types, each with at most one lock acquisition site", len(methods))})
	}
}

func (cc *checkCtx) posOfIns(ins ssa.Instruction) string {
	p := ins.Pos()
	if !p.IsValid() {
		return ""
	}
	pp := cc.e.prog.Fset.Position(p)
	return fmt.Sprintf("%s:%d", strings.TrimPrefix(pp.Filename, cc.e.repo+"/"), pp.Line)
}

// addrOfGlobal: v is the address of a package-level variable or of a field / element of one (no load in between).
func addrOfGlobal(v ssa.Value) *ssa.Global {
	for i := 0; i < 8; i++ {
		switch x := v.(type) {
		case *ssa.Global:
			return x
		case *ssa.FieldAddr:
			v = x.X
		case *ssa.IndexAddr:
			v = x.X
		default:
			return nil
		}
	}
	return nil
}

// globalRoot: the package-level variable a store address is derived from (directly, through a field/element address,
// or through a value loaded from the variable, e.g. a map or slice held in it).
func globalRoot(v ssa.Value) *ssa.Global {
	for i := 0; i < 8; i++ {
		switch x := v.(type) {
		case *ssa.Global:
			return x
		case *ssa.FieldAddr:
			v = x.X
		case *ssa.IndexAddr:
			v = x.X
		case *ssa.UnOp:
			v = x.X
		case *ssa.Slice:
			v = x.X
		case *ssa.ChangeType:
			v = x.X
		default:
			return nil
		}
	}
	return nil
}

func (e *Engine) inRepoPkg(p *ssa.Package) bool {
	if p == nil {
		return false
	}
	_, ok := e.byName[p.Pkg.Name()]
	return ok && strings.HasPrefix(p.Pkg.Path(), jsightAPI)
}

// runLemmas discharges the standalone lemmas tagged with the property (SMT validity of a closed contract formula).
func (cc *checkCtx) runLemmas() {
	e := cc.e
	for _, l := range e.db.Lemmas {
		if !hasTag(l.Tags, cc.prop) {
			continue
		}
		o := e.proveLemma(l, cc.dir, cc.perMs)
		cc.extra = append(cc.extra, o)
	}
}

func (e *Engine) proveLemma(l *LemmaSpec, dir string, perMs int) *Obligation {
	vc := &FnVC{eng: e, key: "lemma:" + l.Pkg + "." + l.Name, sorts: NewSorts(e.db), declared: map[string]bool{},
		epMemo: map[string]string{}, assumes: map[string]bool{}, oblNames: map[string]int{}, tablesUsed: map[string]bool{}, specFnUsed: map[string]bool{}}
	st := &state{reach: "true", regs: map[*ssa.Alloc]string{}, heap: map[string]string{}, ep: vc.newEpoch()}
	st.alloc = vc.declare("alloc0", "Int")
	st.ep.alloc = "alloc0"
	vc.old = st
	o := &Obligation{Name: vc.key, Kind: "lemma", Tags: l.Tags, Fn: vc.key, Desc: l.Src}
	c := vc.newCtx(nil, st, st, nil)
	if p := e.byName[l.Pkg]; p != nil {
		c.pkg = p.Pkg
	}
	var term string
	func() {
		defer func() {
			if r := recover(); r != nil {
				if ee, ok := r.(evalErr); ok {
					e.specError("lemma %s: %s", l.Name, string(ee))
					term = "false"
					return
				}
				panic(r)
			}
		}()
		term = c.peelForall(l.E)
	}()
	var sb strings.Builder
	sb.WriteString("(set-option :produce-models true)\n(set-logic ALL)\n")
	for _, d := range vc.sorts.decls {
		sb.WriteString(d + "\n")
	}
	for _, d := range vc.decl {
		sb.WriteString(d + "\n")
	}
	for _, b := range vc.body {
		sb.WriteString(b + "\n")
	}
	fmt.Fprintf(&sb, "(assert (not %s))\n(check-sat)\n(get-model)\n", term)
	file := filepath.Join(dir, sanitize(vc.key)+".smt2")
	os.WriteFile(file, []byte(sb.String()), 0o644)
	sec := perMs/1000 + 5
	for _, sv := range [][]string{{"cvc5", "cvc5", "--lang=smt2", "--strings-exp", fmt.Sprintf("--tlimit=%d", perMs), file},
		{"z3new", "z3-new", "-smt2", fmt.Sprintf("-T:%d", sec), file}, {"z3", "z3", "-smt2", fmt.Sprintf("-T:%d", sec), file}} {
		if sv[0] == "cvc5" {
			sv = append(sv[:len(sv)-1], "--produce-models", file)
		}
		out := strings.TrimSpace(runRaw(sv[1:], sec+5))
		first := strings.SplitN(out, "\n", 2)[0]
		if first == "unsat" || first == "sat" {
			o.Result, o.Solver = first, sv[0]
			if first == "sat" {
				o.Desc = l.Src + " -- counter-model: " + truncate(out, 900)
				o.witness = truncate(out, 900)
			}
			return o
		}
		if o.Result == "" {
			o.Result, o.Solver = "unknown", sv[0]
		}
	}
	return o
}

var _ = ssa.NaiveForm

// peelForall evaluates a formula to be proved valid, turning its positive universal quantifiers into fresh constants
// (manual skolemisation of the negated goal; helps the string solvers).
func (c *evalCtx) peelForall(e Expr) string {
	switch x := e.(type) {
	case *EQuant:
		if x.Forall {
			var ranges []string
			for _, qv := range x.Vars {
				t := c.resolveType(qv.Type)
				srt := "Int"
				if t != tMathInt {
					srt = c.vc.sorts.SortOf(t)
				}
				n := c.vc.freshConst("sk:"+qv.Name, srt)
				if t != tMathInt {
					if r := c.vc.sorts.RangeOf(t, n); r != "true" {
						ranges = append(ranges, r)
					}
				}
				c.vars[qv.Name] = val{t: n, typ: t}
				c.bound[qv.Name] = true
			}
			body := c.peelForall(x.Body)
			if len(ranges) > 0 {
				return fmt.Sprintf("(=> (and %s) %s)", strings.Join(ranges, " "), body)
			}
			return body
		}
	case *EBinary:
		if x.Op == "==>" {
			a := c.evalB(x.X)
			return fmt.Sprintf("(=> %s %s)", a, c.peelForall(x.Y))
		}
	}
	return c.evalB(e)
}

// mapRangeOnlyCollectsKeys checks the shape "for k := range m { keys = append(keys, k) }" followed by a sort of the
// collected slice: the loop body may only append the key to a slice, and the function must call sort.Strings.
// Returns "" when the shape holds, otherwise the reason.
func mapRangeOnlyCollectsKeys(rg *ssa.Range) string {
	fn := rg.Parent()
	// find the loop: blocks reachable from the Next instruction's block until back to it
	var next *ssa.Next
	for _, r := range *rg.Referrers() {
		if n, ok := r.(*ssa.Next); ok {
			next = n
		}
	}
	if next == nil {
		return "no Next"
	}
	head := next.Block()
	body := map[*ssa.BasicBlock]bool{}
	var walk func(b *ssa.BasicBlock)
	walk = func(b *ssa.BasicBlock) {
		if body[b] || b == head {
			return
		}
		body[b] = true
		for _, s := range b.Succs {
			walk(s)
		}
	}
	// the body successor is the one from which head is reachable
	for _, s := range head.Succs {
		if reaches(s, head, map[*ssa.BasicBlock]bool{}) {
			walk(s)
		}
	}
	for b := range body {
		for _, ins := range b.Instrs {
			switch x := ins.(type) {
			case *ssa.Call:
				if bi, ok := x.Call.Value.(*ssa.Builtin); ok && (bi.Name() == "append" || bi.Name() == "len") {
					continue
				}
				return "loop body calls " + x.Call.Value.Name()
			case *ssa.Return, *ssa.Panic, *ssa.MapUpdate, *ssa.Defer, *ssa.Go:
				return fmt.Sprintf("loop body contains %T", ins)
			}
		}
	}
	sorted := false
	for _, b := range fn.Blocks {
		for _, ins := range b.Instrs {
			if c, ok := ins.(*ssa.Call); ok {
				if f := c.Call.StaticCallee(); f != nil && f.Pkg != nil && f.Pkg.Pkg.Path() == "sort" {
					switch f.Name() {
					case "Strings", "Ints", "Float64s":
						// a total order in which equal keys are identical: the result does not depend on the input order
						sorted = true
					default:
						return "keys are ordered by sort." + f.Name() + " with a caller-supplied comparison, which is not shown to be a total order (equal-comparing keys would keep map order)"
					}
				}
			}
		}
	}
	if !sorted {
		return "collected keys are not sorted"
	}
	return ""
}

func reaches(from, to *ssa.BasicBlock, seen map[*ssa.BasicBlock]bool) bool {
	if from == to {
		return true
	}
	if seen[from] {
		return false
	}
	seen[from] = true
	for _, s := range from.Succs {
		if reaches(s, to, seen) {
			return true
		}
	}
	return false
}
