package main

// Evaluation of contract expressions to SMT terms, typed by go/types.

import (
	"fmt"
	"go/constant"
	"go/types"
	"strconv"
	"strings"

	"golang.org/x/tools/go/ssa"
)

// special pseudo types for spec-level values
var (
	tMathInt = types.Typ[types.UntypedInt]
	tBool    = types.Typ[types.Bool]
	tSet     = types.NewNamed(types.NewTypeName(0, nil, "$set", nil), types.Typ[types.Int], nil)
)

type evalCtx struct {
	vc    *FnVC
	fr    *frame
	cur   *state
	old   *state
	vars  map[string]val
	pkg   *types.Package
	inOld bool
	depth int
	bound map[string]bool
}

type evalErr string

func (c *evalCtx) fail(f string, a ...any) { panic(evalErr(fmt.Sprintf(f, a...))) }

func (vc *FnVC) newCtx(fr *frame, cur, old *state, vars map[string]val) *evalCtx {
	c := &evalCtx{vc: vc, fr: fr, cur: cur, old: old, vars: map[string]val{}, bound: map[string]bool{}}
	if fr != nil && fr.fn.Pkg != nil {
		c.pkg = fr.fn.Pkg.Pkg
	}
	if fr != nil {
		for k, v := range fr.lets {
			c.vars[k] = v
		}
	}
	for k, v := range vars {
		c.vars[k] = v
	}
	return c
}

func (vc *FnVC) evalBool(fr *frame, cur, old *state, e Expr, vars map[string]val) (res string) {
	c := vc.newCtx(fr, cur, old, vars)
	defer func() {
		if r := recover(); r != nil {
			if ee, ok := r.(evalErr); ok {
				vc.eng.specError("%s: in %q: %s", vc.key, e.String(), string(ee))
				// an unreadable clause is an unconstrained proposition: assuming it gives nothing, proving it fails
				res = vc.freshConst("unreadable", "Bool")
				return
			}
			panic(r)
		}
	}()
	v := c.eval(e)
	if vc.sortOfVal(v) != "Bool" {
		c.fail("expression is not boolean")
	}
	return v.t
}

func (vc *FnVC) evalInt(fr *frame, cur, old *state, e Expr, vars map[string]val) (res string) {
	c := vc.newCtx(fr, cur, old, vars)
	defer func() {
		if r := recover(); r != nil {
			if ee, ok := r.(evalErr); ok {
				vc.eng.specError("%s: in %q: %s", vc.key, e.String(), string(ee))
				res = "0"
				return
			}
			panic(r)
		}
	}()
	return c.eval(e).t
}

func (vc *FnVC) sortOfVal(v val) string {
	if v.typ == tMathInt {
		return "Int"
	}
	if v.typ == tSet {
		return "Set"
	}
	if v.typ == nil {
		return "?"
	}
	return vc.sorts.SortOf(v.typ)
}

func (c *evalCtx) st() *state {
	if c.inOld {
		return c.old
	}
	return c.cur
}

// lookupVar resolves a plain identifier.
func (c *evalCtx) lookupVar(name string) (val, bool) {
	if v, ok := c.vars[name]; ok {
		if c.inOld {
			if ov, ok2 := c.vars["old$"+name]; ok2 {
				return ov, true
			}
		}
		return v, true
	}
	if c.fr != nil && c.fr.namedVals != nil {
		if sv, ok := c.fr.namedVals[name]; ok {
			if v, ok := c.fr.vals[sv]; ok {
				return val{t: v.t, typ: tMathInt}, true
			}
		}
	}
	// captured variable of a closure: the free variable is a pointer to the captured cell
	if c.fr != nil && c.fr.fn != nil && c.fr.vals != nil {
		for _, fv := range c.fr.fn.FreeVars {
			if fv.Name() == name {
				if pv, ok := c.fr.vals[fv]; ok {
					lv := c.vc.deref(pv)
					return val{t: c.vc.loadLV(c.st(), lv), typ: lv.typ}, true
				}
			}
		}
	}
	// named local / parameter cell of the current frame
	if c.fr != nil {
		if a, ok := c.fr.names[name]; ok {
			st := c.st()
			if a.Heap {
				// escaping variable: lives in a cell; its address is the Alloc's value
				if av, ok := c.fr.vals[a]; ok {
					lv := c.vc.deref(av)
					return val{t: c.vc.loadLV(st, lv), typ: lv.typ}, true
				}
				return val{}, false
			}
			el := a.Type().(*types.Pointer).Elem()
			t, ok := st.regs[a]
			if !ok {
				if c.inOld {
					c.fail("old(%s): variable has no entry value", name)
				}
				t = c.vc.sorts.ZeroOf(el)
			}
			return val{t: t, typ: el}, true
		}
	}
	return val{}, false
}

func (c *evalCtx) eval(e Expr) val {
	vc := c.vc
	S := vc.sorts
	_ = S
	switch x := e.(type) {
	case *EInt:
		n, err := strconv.ParseInt(x.V, 0, 64)
		if err != nil {
			return val{t: x.V, typ: tMathInt}
		}
		return val{t: fmt.Sprint(n), typ: tMathInt}
	case *EBool:
		return val{t: fmt.Sprint(x.V), typ: tBool}
	case *EStr:
		return val{t: smtString(x.V), typ: types.Typ[types.String]}
	case *ENil:
		return val{t: "$nil", typ: types.Typ[types.UntypedNil]}
	case *EIdent:
		return c.ident(x.Name)
	case *EUnary:
		switch x.Op {
		case "!":
			return val{t: "(not " + c.evalB(x.X) + ")", typ: tBool}
		case "-":
			return val{t: "(- " + c.eval(x.X).t + ")", typ: tMathInt}
		case "*":
			p := c.eval(x.X)
			lv := vc.deref(p)
			return val{t: vc.loadLV(c.st(), lv), typ: lv.typ}
		}
		c.fail("unary %s unsupported", x.Op)
	case *EBinary:
		return c.binary(x)
	case *ECond:
		cond := c.evalB(x.C)
		a, b := c.eval(x.A), c.eval(x.B)
		a, b = c.unify(a, b)
		return val{t: fmt.Sprintf("(ite %s %s %s)", cond, a.t, b.t), typ: a.typ}
	case *ESel:
		return c.sel(x)
	case *EIndex:
		base := c.eval(x.X)
		switch u := base.typ.Underlying().(type) {
		case *types.Slice:
			i := c.eval(x.I)
			return val{t: fmt.Sprintf("(select (s.arr %s) %s)", base.t, i.t), typ: u.Elem()}
		case *types.Array:
			i := c.eval(x.I)
			return val{t: fmt.Sprintf("(select %s %s)", base.t, i.t), typ: u.Elem()}
		case *types.Map:
			k := c.evalAs(x.I, u.Key())
			_, vv, _ := vc.mapHeaps(u)
			return val{t: fmt.Sprintf("(select (select %s %s) %s)", vc.hget(c.st(), vv), base.t, k.t), typ: u.Elem()}
		case *types.Basic:
			if isStringType(base.typ) {
				i := c.eval(x.I)
				return val{t: fmt.Sprintf("(str.to_code (str.at %s %s))", base.t, i.t), typ: types.Typ[types.Uint8], strAt: fmt.Sprintf("(str.at %s %s)", base.t, i.t)}
			}
		case *types.Pointer:
			if arr, ok := u.Elem().Underlying().(*types.Array); ok {
				i := c.eval(x.I)
				a := vc.loadLV(c.st(), vc.deref(base))
				return val{t: fmt.Sprintf("(select %s %s)", a, i.t), typ: arr.Elem()}
			}
		}
		c.fail("cannot index %s", typeKey(base.typ))
	case *ESlice:
		base := c.eval(x.X)
		if _, ok := base.typ.Underlying().(*types.Slice); ok {
			lo := "0"
			if x.Lo != nil {
				lo = c.eval(x.Lo).t
			}
			hi := fmt.Sprintf("(s.len %s)", base.t)
			if x.Hi != nil {
				hi = c.eval(x.Hi).t
			}
			return val{t: vc.subSlice(base.t, vc.sorts.SortOf(base.typ), lo, hi, fmt.Sprintf("(s.cap %s)", base.t)), typ: base.typ}
		}
		if isStringType(base.typ) {
			lo := "0"
			if x.Lo != nil {
				lo = c.eval(x.Lo).t
			}
			hi := fmt.Sprintf("(str.len %s)", base.t)
			if x.Hi != nil {
				hi = c.eval(x.Hi).t
			}
			return val{t: fmt.Sprintf("(str.substr %s %s (- %s %s))", base.t, lo, hi, lo), typ: base.typ}
		}
		c.fail("cannot slice %s", typeKey(base.typ))
	case *EQuant:
		return c.quant(x)
	case *ECall:
		return c.call(x)
	}
	c.fail("cannot evaluate %T", e)
	return val{}
}

func (c *evalCtx) evalB(e Expr) string {
	v := c.eval(e)
	if c.vc.sortOfVal(v) != "Bool" {
		c.fail("%s is not boolean", e.String())
	}
	return v.t
}

// evalAs evaluates e, coercing nil / untyped constants to type t.
func (c *evalCtx) evalAs(e Expr, t types.Type) val {
	v := c.eval(e)
	if v.t == "$nil" {
		return val{t: c.vc.sorts.ZeroOf(t), typ: t}
	}
	if fn, ok := c.funcRef(e); ok && v.typ == nil {
		return fn
	}
	return v
}

func (c *evalCtx) unify(a, b val) (val, val) {
	if a.t == "$nil" && b.t == "$nil" {
		return val{t: "0", typ: tMathInt}, val{t: "0", typ: tMathInt}
	}
	if a.t == "$nil" {
		a = val{t: c.vc.sorts.ZeroOf(b.typ), typ: b.typ}
	}
	if b.t == "$nil" {
		b = val{t: c.vc.sorts.ZeroOf(a.typ), typ: a.typ}
	}
	return a, b
}

func (c *evalCtx) ident(name string) val {
	vc := c.vc
	if c.bound[name] {
		return c.vars[name]
	}
	if v, ok := c.lookupVar(name); ok {
		if v.lv != nil && v.t == "" {
			// address of a field / local passed by reference: never nil
			v.t = vc.freshConst("addr", "Int")
			vc.assume("true", fmt.Sprintf("(> %s 0)", v.t))
		}
		return v
	}
	if gt, ok := vc.eng.db.GhostVars[name]; ok {
		h := "G:ghost." + name
		vc.eng.regHeap(h, heapDesc{kind: "raw", raw: ghostSort(gt)})
		return val{t: vc.hget(c.st(), h), typ: ghostGoType(ghostSort(gt))}
	}
	if cs, ok := vc.eng.db.Consts[name]; ok {
		e, err := ParseExpr(cs)
		if err != nil {
			c.fail("const %s: %v", name, err)
		}
		return c.eval(e)
	}
	// package-level object
	if c.pkg != nil {
		if obj := c.pkg.Scope().Lookup(name); obj != nil {
			return c.object(obj)
		}
	}
	// any verified package (unique name)
	if obj := vc.eng.lookupGlobalName(name); obj != nil {
		return c.object(obj)
	}
	c.fail("unknown identifier %s", name)
	return val{}
}

func (c *evalCtx) object(obj types.Object) val {
	vc := c.vc
	switch o := obj.(type) {
	case *types.Const:
		switch o.Val().Kind() {
		case constant.Int:
			return val{t: smtInt(o.Val().ExactString()), typ: o.Type()}
		case constant.String:
			return val{t: smtString(constant.StringVal(o.Val())), typ: o.Type()}
		case constant.Bool:
			return val{t: fmt.Sprint(constant.BoolVal(o.Val())), typ: tBool}
		}
	case *types.Func:
		if f := vc.eng.prog.FuncValue(o); f != nil {
			return val{t: vc.fnID(f), typ: o.Type(), fn: f}
		}
	case *types.Var:
		if g, ok := vc.eng.globalOf(o); ok {
			name := vc.globalHeap(g)
			return val{t: vc.hget(c.st(), name), typ: o.Type()}
		}
	case *types.TypeName:
		return val{t: "$type", typ: o.Type()}
	}
	c.fail("unsupported object %s", obj.Name())
	return val{}
}

func (c *evalCtx) funcRef(e Expr) (val, bool) { return val{}, false }

func (c *evalCtx) sel(x *ESel) val {
	vc := c.vc
	// package-qualified name?
	if id, ok := x.X.(*EIdent); ok {
		if _, isVar := c.lookupVar(id.Name); !isVar && !c.bound[id.Name] {
			if p := vc.eng.pkgByName(id.Name); p != nil {
				if obj := p.Scope().Lookup(x.Name); obj != nil {
					return c.object(obj)
				}
			}
		}
	}
	base := c.eval(x.X)
	return c.selOn(base, x.Name)
}

func (c *evalCtx) selOn(base val, name string) val {
	vc := c.vc
	t := base.typ
	if t == nil {
		c.fail("selector .%s on untyped value", name)
	}
	if pt, ok := t.Underlying().(*types.Pointer); ok {
		el := pt.Elem()
		if stt, ok := el.Underlying().(*types.Struct); ok {
			for i := 0; i < stt.NumFields(); i++ {
				if stt.Field(i).Name() == name {
					lv := vc.fieldAddr(base, i)
					return val{t: vc.loadLV(c.st(), lv), typ: lv.typ}
				}
			}
			// ghost field
			for _, g := range vc.eng.db.Ghosts[typeKey(el)] {
				if g.Name == name {
					h, srt := vc.ghostHeap(el, g)
					ref := base.t
					if base.lv != nil {
						ref = base.lv.ref
					}
					return val{t: fmt.Sprintf("(select %s %s)", vc.hget(c.st(), h), ref), typ: ghostGoType(srt)}
				}
			}
			// embedded struct promotion (one level)
			for i := 0; i < stt.NumFields(); i++ {
				if stt.Field(i).Embedded() {
					lv := vc.fieldAddr(base, i)
					inner := val{t: vc.loadLV(c.st(), lv), typ: lv.typ}
					if r, ok := c.trySelOn(inner, name); ok {
						return r
					}
				}
			}
		}
		c.fail("no field %s in %s", name, typeKey(t))
	}
	if stt, ok := t.Underlying().(*types.Struct); ok {
		si := vc.sorts.StructOf(t)
		for i := 0; i < stt.NumFields(); i++ {
			if stt.Field(i).Name() == name {
				return val{t: fmt.Sprintf("(%s %s)", si.fields[i], base.t), typ: stt.Field(i).Type()}
			}
		}
		for i := 0; i < stt.NumFields(); i++ {
			if stt.Field(i).Embedded() {
				inner := val{t: fmt.Sprintf("(%s %s)", si.fields[i], base.t), typ: stt.Field(i).Type()}
				if r, ok := c.trySelOn(inner, name); ok {
					return r
				}
			}
		}
		c.fail("no field %s in %s", name, typeKey(t))
	}
	if _, ok := t.Underlying().(*types.Interface); ok {
		switch name {
		case "tid":
			return val{t: fmt.Sprintf("(i.tid %s)", base.t), typ: tMathInt}
		case "val":
			return val{t: fmt.Sprintf("(i.val %s)", base.t), typ: tMathInt}
		}
	}
	c.fail("selector .%s on %s", name, typeKey(t))
	return val{}
}

func (c *evalCtx) trySelOn(base val, name string) (r val, ok bool) {
	defer func() {
		if e := recover(); e != nil {
			if _, isE := e.(evalErr); isE {
				ok = false
				return
			}
			panic(e)
		}
	}()
	return c.selOn(base, name), true
}

func ghostGoType(srt string) types.Type {
	switch srt {
	case "Bool":
		return tBool
	case "String":
		return types.Typ[types.String]
	}
	return tMathInt
}

func (c *evalCtx) binary(x *EBinary) val {
	vc := c.vc
	switch x.Op {
	case "&&", "||", "==>", "<==>":
		a, b := c.evalB(x.X), c.evalB(x.Y)
		op := map[string]string{"&&": "and", "||": "or", "==>": "=>", "<==>": "="}[x.Op]
		return val{t: fmt.Sprintf("(%s %s %s)", op, a, b), typ: tBool}
	case "==", "!=":
		a, b := c.eval(x.X), c.eval(x.Y)
		a, b = c.unify(a, b)
		sa, sb := vc.sortOfVal(a), vc.sortOfVal(b)
		if sa != sb {
			c.fail("comparison of different sorts %s and %s in %s", sa, sb, x.String())
		}
		var t string
		if cmp, ok := charCompare(a, b); ok {
			t = cmp
		} else if strings.HasPrefix(sa, "(Slice ") {
			// sequence equality
			k := vc.newName("k")
			t = fmt.Sprintf("(and (= (s.len %s) (s.len %s)) (forall ((%s Int)) (=> (and (<= 0 %s) (< %s (s.len %s))) (= (select (s.arr %s) %s) (select (s.arr %s) %s)))))",
				a.t, b.t, k, k, k, a.t, a.t, k, b.t, k)
		} else {
			t = fmt.Sprintf("(= %s %s)", a.t, b.t)
		}
		if x.Op == "!=" {
			t = "(not " + t + ")"
		}
		return val{t: t, typ: tBool}
	case "<", "<=", ">", ">=":
		a, b := c.eval(x.X), c.eval(x.Y)
		return val{t: fmt.Sprintf("(%s %s %s)", x.Op, a.t, b.t), typ: tBool}
	case "+", "-", "*":
		a, b := c.eval(x.X), c.eval(x.Y)
		if x.Op == "+" && a.typ != nil && isStringType(a.typ) && a.typ != tMathInt {
			return val{t: fmt.Sprintf("(str.++ %s %s)", a.t, b.t), typ: a.typ}
		}
		return val{t: fmt.Sprintf("(%s %s %s)", x.Op, a.t, b.t), typ: tMathInt}
	case "/":
		a, b := c.eval(x.X), c.eval(x.Y)
		return val{t: fmt.Sprintf("(div %s %s)", a.t, b.t), typ: tMathInt}
	case "%":
		a, b := c.eval(x.X), c.eval(x.Y)
		return val{t: fmt.Sprintf("(mod %s %s)", a.t, b.t), typ: tMathInt}
	case "++":
		c.fail("'++' is only supported in the form  a == b ++ [x]  via seqapp(b, x)")
	}
	c.fail("binary %s unsupported", x.Op)
	return val{}
}

func (c *evalCtx) resolveType(name string) types.Type {
	vc := c.vc
	switch name {
	case "int":
		return tMathInt
	case "bool":
		return tBool
	case "byte":
		return types.Typ[types.Uint8]
	case "uint":
		return types.Typ[types.Uint]
	case "string":
		return types.Typ[types.String]
	case "uint8", "uint16", "uint32", "uint64", "int8", "int16", "int32", "int64", "uintptr", "rune":
		return types.Universe.Lookup(name).Type()
	case "any":
		return types.NewInterfaceType(nil, nil)
	case "error":
		return types.Universe.Lookup("error").Type()
	}
	if strings.HasPrefix(name, "*") {
		return types.NewPointer(c.resolveType(name[1:]))
	}
	if strings.HasPrefix(name, "[]") {
		return types.NewSlice(c.resolveType(name[2:]))
	}
	if i := strings.Index(name, "."); i >= 0 {
		if p := vc.eng.pkgByName(name[:i]); p != nil {
			if obj, ok := p.Scope().Lookup(name[i+1:]).(*types.TypeName); ok {
				return obj.Type()
			}
		}
		c.fail("unknown type %s", name)
	}
	if c.pkg != nil {
		if obj, ok := c.pkg.Scope().Lookup(name).(*types.TypeName); ok {
			return obj.Type()
		}
	}
	if obj, ok := vc.eng.lookupGlobalName(name).(*types.TypeName); ok {
		return obj.Type()
	}
	c.fail("unknown type %s", name)
	return nil
}

func (c *evalCtx) quant(x *EQuant) val {
	vc := c.vc
	var binds []string
	var ranges []string
	saved := map[string]val{}
	savedB := map[string]bool{}
	for _, qv := range x.Vars {
		t := c.resolveType(qv.Type)
		srt := "Int"
		if t != tMathInt {
			srt = vc.sorts.SortOf(t)
		}
		n := vc.newName("q:" + qv.Name)
		binds = append(binds, fmt.Sprintf("(%s %s)", n, srt))
		if t != tMathInt {
			if r := vc.sorts.RangeOf(t, n); r != "true" {
				ranges = append(ranges, r)
			}
		}
		if v, ok := c.vars[qv.Name]; ok {
			saved[qv.Name] = v
		}
		savedB[qv.Name] = c.bound[qv.Name]
		c.vars[qv.Name] = val{t: n, typ: t}
		c.bound[qv.Name] = true
	}
	body := c.evalB(x.Body)
	for _, qv := range x.Vars {
		if v, ok := saved[qv.Name]; ok {
			c.vars[qv.Name] = v
		} else {
			delete(c.vars, qv.Name)
		}
		c.bound[qv.Name] = savedB[qv.Name]
	}
	if x.Forall {
		if len(ranges) > 0 {
			body = fmt.Sprintf("(=> (and %s) %s)", strings.Join(ranges, " "), body)
		}
		return val{t: fmt.Sprintf("(forall (%s) %s)", strings.Join(binds, " "), body), typ: tBool}
	}
	if len(ranges) > 0 {
		body = fmt.Sprintf("(and %s %s)", strings.Join(ranges, " "), body)
	}
	return val{t: fmt.Sprintf("(exists (%s) %s)", strings.Join(binds, " "), body), typ: tBool}
}

func (c *evalCtx) call(x *ECall) val {
	vc := c.vc
	S := vc.sorts
	name := ""
	if id, ok := x.Fun.(*EIdent); ok {
		name = id.Name
	}
	argN := func(n int) {
		if len(x.Args) != n {
			c.fail("%s expects %d argument(s)", name, n)
		}
	}
	switch name {
	case "old":
		argN(1)
		if c.old == nil {
			c.fail("old() not available here")
		}
		was := c.inOld
		c.inOld = true
		v := c.eval(x.Args[0])
		c.inOld = was
		return v
	case "len":
		argN(1)
		v := c.eval(x.Args[0])
		switch u := v.typ.Underlying().(type) {
		case *types.Slice:
			return val{t: fmt.Sprintf("(s.len %s)", v.t), typ: tMathInt}
		case *types.Map:
			_, _, l := vc.mapHeaps(u)
			return val{t: fmt.Sprintf("(select %s %s)", vc.hget(c.st(), l), v.t), typ: tMathInt}
		case *types.Array:
			return val{t: fmt.Sprint(u.Len()), typ: tMathInt}
		case *types.Basic:
			if isStringType(v.typ) {
				return val{t: fmt.Sprintf("(str.len %s)", v.t), typ: tMathInt}
			}
		}
		c.fail("len of %s", typeKey(v.typ))
	case "cap":
		argN(1)
		v := c.eval(x.Args[0])
		return val{t: fmt.Sprintf("(s.cap %s)", v.t), typ: tMathInt}
	case "has":
		argN(2)
		m := c.eval(x.Args[0])
		mt, ok := m.typ.Underlying().(*types.Map)
		if !ok {
			c.fail("has() needs a map")
		}
		k := c.evalAs(x.Args[1], mt.Key())
		p, _, _ := vc.mapHeaps(mt)
		return val{t: fmt.Sprintf("(and (not (= %s 0)) (select (select %s %s) %s))", m.t, vc.hget(c.st(), p), m.t, k.t), typ: tBool}
	case "min", "max":
		argN(2)
		a, b := c.eval(x.Args[0]), c.eval(x.Args[1])
		op := "<="
		if name == "max" {
			op = ">="
		}
		return val{t: fmt.Sprintf("(ite (%s %s %s) %s %s)", op, a.t, b.t, a.t, b.t), typ: tMathInt}
	case "int", "uint", "byte":
		argN(1)
		v := c.eval(x.Args[0])
		return val{t: v.t, typ: tMathInt}
	case "seqapp": // seqapp(a, b, x): a == b ++ [x]
		argN(3)
		a, b, e := c.eval(x.Args[0]), c.eval(x.Args[1]), c.eval(x.Args[2])
		k := vc.newName("k")
		return val{t: fmt.Sprintf("(and (= (s.len %s) (+ (s.len %s) 1)) (= (select (s.arr %s) (s.len %s)) %s) (forall ((%s Int)) (=> (and (<= 0 %s) (< %s (s.len %s))) (= (select (s.arr %s) %s) (select (s.arr %s) %s)))))",
			a.t, b.t, a.t, b.t, e.t, k, k, k, b.t, a.t, k, b.t, k), typ: tBool}
	case "seqprefix": // seqprefix(a, b, n): a == b[:n]
		argN(3)
		a, b, n := c.eval(x.Args[0]), c.eval(x.Args[1]), c.eval(x.Args[2])
		k := vc.newName("k")
		return val{t: fmt.Sprintf("(and (= (s.len %s) %s) (forall ((%s Int)) (=> (and (<= 0 %s) (< %s %s)) (= (select (s.arr %s) %s) (select (s.arr %s) %s)))))",
			a.t, n.t, k, k, k, n.t, a.t, k, b.t, k), typ: tBool}
	case "seqtail": // seqtail(a, b): a == b[1:]
		argN(2)
		a, b := c.eval(x.Args[0]), c.eval(x.Args[1])
		k := vc.newName("k")
		return val{t: fmt.Sprintf("(and (= (s.len %s) (- (s.len %s) 1)) (forall ((%s Int)) (=> (and (<= 0 %s) (< %s (s.len %s))) (= (select (s.arr %s) %s) (select (s.arr %s) (+ %s 1))))))",
			a.t, b.t, k, k, k, a.t, a.t, k, b.t, k), typ: tBool}
	case "unchanged": // unchanged(): every heap array equals its pre-state value on all objects that existed before
		argN(0)
		if c.old == nil {
			c.fail("unchanged() needs a pre-state")
		}
		var parts []string
		if c.cur.ep != c.old.ep {
			parts = append(parts, epochIs(c.cur.ep, c.old.ep))
		}
		for _, h := range sortedKeys(c.cur.heap) {
			cur, was := c.cur.heap[h], vc.hget(c.old, h)
			if cur == was {
				continue
			}
			if strings.HasPrefix(h, "G:") {
				parts = append(parts, fmt.Sprintf("(= %s %s)", cur, was))
			} else {
				parts = append(parts, vc.frameFact(cur, was, nil, c.old.alloc))
			}
		}
		if len(parts) == 0 {
			return val{t: "true", typ: tBool}
		}
		return val{t: "(and " + strings.Join(parts, " ") + ")", typ: tBool}
	case "same": // same(a, b): identical values (for slices: same array, length and capacity), stronger than ==
		argN(2)
		a, b := c.eval(x.Args[0]), c.eval(x.Args[1])
		a, b = c.unify(a, b)
		return val{t: fmt.Sprintf("(= %s %s)", a.t, b.t), typ: tBool}
	case "bstr": // bstr(b): the string conversion of a byte slice (the generator's bytes2str bridge)
		argN(1)
		v := c.eval(x.Args[0])
		vc.eng.needBridge = true
		return val{t: fmt.Sprintf("(bytes2str %s)", v.t), typ: types.Typ[types.String]}
	case "isnilslice":
		argN(1)
		v := c.eval(x.Args[0])
		return val{t: fmt.Sprintf("(= %s %s)", v.t, S.ZeroOf(v.typ)), typ: tBool}
	case "strcontains":
		argN(2)
		a, b := c.eval(x.Args[0]), c.eval(x.Args[1])
		return val{t: fmt.Sprintf("(str.contains %s %s)", a.t, b.t), typ: tBool}
	case "strprefix": // strprefix(s, p): p is a prefix of s
		argN(2)
		a, b := c.eval(x.Args[0]), c.eval(x.Args[1])
		return val{t: fmt.Sprintf("(str.prefixof %s %s)", b.t, a.t), typ: tBool}
	case "allocmark": // allocmark(): the allocation counter of the evaluation state (refs <= it existed then)
		argN(0)
		return val{t: c.st().alloc, typ: tMathInt}
	case "fresh": // fresh(p): p was allocated during the call
		argN(1)
		v := c.eval(x.Args[0])
		if c.old == nil {
			c.fail("fresh() needs a pre-state")
		}
		return val{t: fmt.Sprintf("(and (> %s %s) (<= %s %s))", v.t, c.old.alloc, v.t, c.cur.alloc), typ: tBool}
	case "chr": // chr(c): one-byte string
		argN(1)
		v := c.eval(x.Args[0])
		return val{t: fmt.Sprintf("(str.from_code %s)", v.t), typ: types.Typ[types.String]}
	case "fnid": // fnid(f) integer id of a function value (identity)
		argN(1)
		v := c.eval(x.Args[0])
		return val{t: v.t, typ: tMathInt}
	case "isnil":
		argN(1)
		v := c.eval(x.Args[0])
		if _, isI := v.typ.Underlying().(*types.Interface); isI {
			return val{t: fmt.Sprintf("(= (i.tid %s) 0)", v.t), typ: tBool}
		}
		return val{t: fmt.Sprintf("(= %s %s)", v.t, S.ZeroOf(v.typ)), typ: tBool}
	case "typeis": // typeis(iface, T)
		argN(2)
		v := c.eval(x.Args[0])
		tn := x.Args[1].String()
		t := c.resolveType(tn)
		return val{t: fmt.Sprintf("(= (i.tid %s) %s)", v.t, vc.typeID(t)), typ: tBool}
	case "unbox": // unbox(T, iface): the value of (non-pointer) type T boxed in an interface
		argN(2)
		t := c.resolveType(x.Args[0].String())
		v := c.eval(x.Args[1])
		return val{t: fmt.Sprintf("(%s (i.val %s))", vc.eng.unboxFn(vc, t), v.t), typ: t}
	case "box": // box(T, v): the interface value holding v of (non-pointer, non-integer) type T
		argN(2)
		t := c.resolveType(x.Args[0].String())
		v := c.eval(x.Args[1])
		switch t.Underlying().(type) {
		case *types.Pointer, *types.Map, *types.Signature, *types.Chan:
			return val{t: fmt.Sprintf("(mk-iface %s %s)", vc.typeID(t), v.t), typ: types.NewInterfaceType(nil, nil)}
		}
		if isIntType(t) {
			return val{t: fmt.Sprintf("(mk-iface %s %s)", vc.typeID(t), v.t), typ: types.NewInterfaceType(nil, nil)}
		}
		return val{t: fmt.Sprintf("(mk-iface %s (%s %s))", vc.typeID(t), vc.eng.boxFn(vc, t), v.t), typ: types.NewInterfaceType(nil, nil)}
	case "ifaceptr": // ifaceptr(iface): the pointer value boxed in an interface
		argN(1)
		v := c.eval(x.Args[0])
		return val{t: fmt.Sprintf("(i.val %s)", v.t), typ: tMathInt}
	case "asptr": // asptr(T, intterm): reinterpret a ref as *T
		argN(2)
		t := c.resolveType(x.Args[0].String())
		v := c.eval(x.Args[1])
		return val{t: v.t, typ: t}
	}
	// predicate
	if p, ok := vc.eng.db.Preds[name]; ok {
		if len(x.Args) != len(p.Params) {
			c.fail("pred %s expects %d arguments", name, len(p.Params))
		}
		if c.depth > 20 {
			c.fail("predicate expansion too deep (recursive pred?)")
		}
		saved := map[string]val{}
		savedB := map[string]bool{}
		var args []val
		// parameter types and identifiers of the body resolve in the package that declares the predicate
		savedPkg := c.pkg
		predPkg := savedPkg
		if pp := vc.eng.byName[p.Pkg]; pp != nil {
			predPkg = pp.Pkg
		}
		var ptypes []types.Type
		c.pkg = predPkg
		for i := range x.Args {
			ptypes = append(ptypes, c.resolveType(p.Params[i].Type))
		}
		c.pkg = savedPkg
		for i, a := range x.Args {
			args = append(args, c.evalAs(a, ptypes[i]))
		}
		c.pkg = predPkg
		defer func() { c.pkg = savedPkg }()
		for i, pp := range p.Params {
			if v, ok := c.vars[pp.Name]; ok {
				saved[pp.Name] = v
			}
			savedB[pp.Name] = c.bound[pp.Name]
			a := args[i]
			if t := ptypes[i]; t != tMathInt {
				a.typ = t
			}
			c.vars[pp.Name] = a
			c.bound[pp.Name] = true
		}
		c.depth++
		r := c.eval(p.Body)
		c.depth--
		for _, pp := range p.Params {
			if v, ok := saved[pp.Name]; ok {
				c.vars[pp.Name] = v
			} else {
				delete(c.vars, pp.Name)
			}
			c.bound[pp.Name] = savedB[pp.Name]
		}
		return r
	}
	// table
	if t, ok := vc.eng.db.Tables[name]; ok {
		argN(1)
		v := c.eval(x.Args[0])
		vc.tablesUsed[name] = true
		rt := types.Type(tMathInt)
		if t.ResBool {
			rt = tBool
		}
		if t.ResStr {
			rt = types.Typ[types.String]
		}
		return val{t: fmt.Sprintf("(%s %s)", q("tbl:"+name), v.t), typ: rt}
	}
	// contract-local spec function (let)
	if lf, ok := c.vars["let$"+name]; ok {
		ls := lf.let
		if len(x.Args) != len(ls.Params) {
			c.fail("let function %s expects %d arguments", name, len(ls.Params))
		}
		var as []string
		for i, a := range x.Args {
			as = append(as, c.evalAs(a, c.resolveType(ls.Params[i].Type)).t)
		}
		return val{t: fmt.Sprintf("(%s %s)", lf.t, strings.Join(as, " ")), typ: c.resolveType(ls.Result)}
	}
	// spec function
	if sf, ok := vc.eng.db.SpecFns[name]; ok {
		if len(x.Args) != len(sf.Params) {
			c.fail("specfn %s expects %d arguments", name, len(sf.Params))
		}
		vc.specFnUsed[name] = true
		var as []string
		for i, a := range x.Args {
			as = append(as, c.evalAs(a, c.resolveType(sf.Params[i].Type)).t)
		}
		rt := c.resolveType(sf.Result)
		return val{t: fmt.Sprintf("(%s %s)", q("spec:"+name), strings.Join(as, " ")), typ: rt}
	}
	c.fail("unknown function %s in contract", x.Fun.String())
	return val{}
}

var _ = ssa.NaiveForm

// epochIs: condition under which the (possibly merged) epoch ep is the epoch target.
func epochIs(ep, target *epoch) string {
	if ep == target {
		return "true"
	}
	if ep.a == nil {
		return "false"
	}
	a, b := epochIs(ep.a, target), epochIs(ep.b, target)
	if a == b {
		return a
	}
	return fmt.Sprintf("(ite %s %s %s)", ep.cond, a, b)
}

// charCompare: s[i] == 'c' as a string-theory atom (much easier for the solvers than str.to_code).
func charCompare(a, b val) (string, bool) {
	if a.strAt == "" {
		a, b = b, a
	}
	if a.strAt == "" {
		return "", false
	}
	n, err := strconv.Atoi(b.t)
	if err != nil || n < 0 || n > 255 {
		return "", false
	}
	return fmt.Sprintf("(= %s %s)", a.strAt, smtString(string([]byte{byte(n)}))), true
}
