// Bounded deciders for C15 (Annotation) and C19 (automatic tag names): exhaustive execution of the REAL functions.
package catalog

import (
	"encoding/json"
	"fmt"
	"os"
	"regexp"
	"strings"
	"testing"
)

type boundedReport struct {
	ID         string   `json:"id"`
	Prop       string   `json:"prop"`
	Evals      int      `json:"evaluations"`
	Distinct   int      `json:"distinct_nontrivial"`
	Violations int      `json:"violations"`
	Rule       string   `json:"rule"`
	Samples    []string `json:"samples"`
	Witnesses  []string `json:"witnesses"`
	Exhaustive bool     `json:"exhaustive"`
	Known      int      `json:"known_finding_instances"`
	KnownEx    string   `json:"known_finding_example"`
}

// knownClass: violations matching the class regexp of a listed known finding (env GOVC_KNOWN_CLASSES, JSON id -> regexp)
// are counted separately; everything else is a new violation.
func knownClass(id string) *regexp.Regexp {
	var m map[string]string
	if json.Unmarshal([]byte(os.Getenv("GOVC_KNOWN_CLASSES")), &m) != nil || m[id] == "" {
		return nil
	}
	re, err := regexp.Compile(m[id])
	if err != nil {
		return nil
	}
	return re
}

func (r *boundedReport) emit() {
	b, _ := json.Marshal(r)
	fmt.Println("BOUNDED " + string(b))
}

func (r *boundedReport) bad(w string) {
	if re := knownClass(r.ID); re != nil && re.MatchString(w) {
		r.Known++
		r.KnownEx = w
		return
	}
	r.Violations++
	if len(r.Witnesses) < 50 {
		r.Witnesses = append(r.Witnesses, w)
	}
}

func enumStrings(alphabet []string, maxLen int, f func(s string)) {
	var rec func(prefix string, n int)
	rec = func(prefix string, n int) {
		f(prefix)
		if n == maxLen {
			return
		}
		for _, c := range alphabet {
			rec(prefix+c, n+1)
		}
	}
	rec("", 0)
}

func TestBoundedC15(t *testing.T) {
	n := 6
	if os.Getenv("GOVC_BOUND_TIER") == "thorough" {
		n = 8
	}
	r := &boundedReport{ID: "C15.annotation-normalised", Prop: "C15", Exhaustive: true,
		Rule: fmt.Sprintf("every text over {a, \u00e0 (bytes C3 A0: its second byte is a space to anything that classifies bytes as runes), space, tab, CR, LF} up to length %d: Annotation(t) has no leading/trailing whitespace, no whitespace other than single spaces, keeps the non-blank characters in order, and Annotation is idempotent; non-trivial = text with a whitespace character", n)}
	enumStrings([]string{"a", "\u00e0", " ", "\t", "\r", "\n"}, n, func(s string) {
		r.Evals++
		if strings.ContainsAny(s, " \t\r\n") {
			r.Distinct++
		}
		a := Annotation(s)
		strip := func(x string) string { return strings.NewReplacer(" ", "", "\t", "", "\r", "", "\n", "").Replace(x) }
		ok := a == strings.TrimSpace(a) && !strings.ContainsAny(a, "\t\r\n") && !strings.Contains(a, "  ") && strip(a) == strip(s) && Annotation(a) == a
		if !ok {
			r.bad(fmt.Sprintf("%q -> %q", s, a))
		} else if len(r.Samples) < 5 && len(s) >= 4 && strings.ContainsAny(s, "\t\r\n") {
			r.Samples = append(r.Samples, fmt.Sprintf("%q -> %q", s, a))
		}
	})
	r.emit()
}

// decodeTagName is the specification of tagName, written as its inverse: "@_" is "/", a leading '@' is the leading '/',
// "__" is a literal '_', "_XY" (two upper-case hex digits) is the byte XY, every other byte stands for itself.
func decodeTagName(tn string) (string, bool) {
	if tn == "@_" {
		return "/", true
	}
	if len(tn) == 0 || tn[0] != '@' {
		return "", false
	}
	hex := func(c byte) (byte, bool) {
		switch {
		case '0' <= c && c <= '9':
			return c - '0', true
		case 'A' <= c && c <= 'F':
			return c - 'A' + 10, true
		}
		return 0, false
	}
	out := []byte{'/'}
	for i := 1; i < len(tn); {
		if tn[i] != '_' {
			out = append(out, tn[i])
			i++
			continue
		}
		if i+1 < len(tn) && tn[i+1] == '_' {
			out = append(out, '_')
			i += 2
			continue
		}
		if i+2 >= len(tn) {
			return string(out), false
		}
		h, ok1 := hex(tn[i+1])
		l, ok2 := hex(tn[i+2])
		if !ok1 || !ok2 {
			return string(out), false
		}
		out = append(out, h<<4|l)
		i += 3
	}
	return string(out), true
}

func TestBoundedC19(t *testing.T) {
	n := 4
	if os.Getenv("GOVC_BOUND_TIER") == "thorough" {
		n = 5
	}
	r := &boundedReport{ID: "C19.tagname-injective", Prop: "C19", Exhaustive: true,
		Rule: fmt.Sprintf("every first path segment over {_, %%, ., a, F, 2, \u00e9, space, 5, E} (so that %%25 and %%2E are valid escapes of members of the alphabet) up to length %d (paths \"/\"+seg): the tag name decodes back to the title (left inverse written in the test = the specification of tagName, hence injectivity) and different automatic tag titles get different tag names (collisions found with a hash map); pathTagTitle(\"/\"+seg+\"/x\") == pathTagTitle(\"/\"+seg); non-trivial = segment containing _, %%, a non-ASCII letter or a space", n)}
	names := map[TagName]string{}
	enumStrings([]string{"_", "%", ".", "a", "F", "2", "\u00e9", " ", "5", "E"}, n, func(seg string) {
		r.Evals++
		if strings.ContainsAny(seg, "_% \u00e9") {
			r.Distinct++
		}
		title := pathTagTitle("/" + seg)
		if seg != "" && seg != "." && title != "/"+seg {
			r.bad(fmt.Sprintf("pathTagTitle(%q) = %q", "/"+seg, title))
			return
		}
		if pathTagTitle("/"+seg+"/x") != title && seg != "" && seg != "." {
			r.bad(fmt.Sprintf("pathTagTitle(%q) != pathTagTitle(%q)", "/"+seg+"/x", "/"+seg))
			return
		}
		tn := tagName(title)
		// left inverse: a title can be read back from its tag name, so tagName is injective on every title for which this
		// holds - a much stronger statement than "no two titles of this enumeration collide"
		if back, ok := decodeTagName(string(tn)); !ok || back != title {
			r.bad(fmt.Sprintf("tagName(%q) = %q does not decode back to the title (got %q)", title, tn, back))
			return
		}
		if prev, ok := names[tn]; ok && prev != title {
			r.bad(fmt.Sprintf("titles %q and %q share the tag name %q", prev, title, tn))
			return
		}
		names[tn] = title
		if len(r.Samples) < 5 && len(seg) >= 3 && strings.ContainsAny(seg, "_%") {
			r.Samples = append(r.Samples, fmt.Sprintf("%q -> %q", title, tn))
		}
	})
	r.emit()
}
