// Bounded deciders for C13 and C15 (stand-ins, never counted as proved): exhaustive execution of the REAL
// core.pathParameters / core.PathParameters / core.description over stated alphabets and lengths.
package core

import (
	"bytes"
	"encoding/json"
	"fmt"
	"os"
	"regexp"
	"strings"
	"testing"
)

type boundedReport struct {
	ID         string   `json:"id"`
	Prop       string   `json:"prop"`
	Evals      int      `json:"evaluations"`
	Distinct   int      `json:"distinct_nontrivial"`
	Violations int      `json:"violations"`
	Rule       string   `json:"rule"`
	Samples    []string `json:"samples"`
	Witnesses  []string `json:"witnesses"`
	Exhaustive bool     `json:"exhaustive"`
	Known      int      `json:"known_finding_instances"`
	KnownEx    string   `json:"known_finding_example"`
}

// knownClass: violations matching the class regexp of a listed known finding (env GOVC_KNOWN_CLASSES, JSON id -> regexp)
// are counted separately; everything else is a new violation.
func knownClass(id string) *regexp.Regexp {
	var m map[string]string
	if json.Unmarshal([]byte(os.Getenv("GOVC_KNOWN_CLASSES")), &m) != nil || m[id] == "" {
		return nil
	}
	re, err := regexp.Compile(m[id])
	if err != nil {
		return nil
	}
	return re
}

func (r *boundedReport) emit() {
	b, _ := json.Marshal(r)
	fmt.Println("BOUNDED " + string(b))
}

func (r *boundedReport) bad(w string) {
	if re := knownClass(r.ID); re != nil && re.MatchString(w) {
		r.Known++
		r.KnownEx = w
		return
	}
	r.Violations++
	if len(r.Witnesses) < 50 {
		r.Witnesses = append(r.Witnesses, w)
	}
}

func enumStrings(alphabet []byte, maxLen int, f func(s string)) {
	var rec func(prefix []byte)
	rec = func(prefix []byte) {
		f(string(prefix))
		if len(prefix) == maxLen {
			return
		}
		for _, c := range alphabet {
			rec(append(prefix, c))
		}
	}
	rec(make([]byte, 0, maxLen))
}

// declarative reading of "the {name} segments of a path": split at '/', drop empty pieces; a piece that begins with
// '{' and ends with '}' (length >= 2) is parameter piece[1:len-1] bound to the prefix made of pieces 0..i joined by '/'.
func specPathParameters(path string) [][2]string {
	var pieces []string
	cur := ""
	for i := 0; i <= len(path); i++ {
		if i == len(path) || path[i] == '/' {
			if cur != "" {
				pieces = append(pieces, cur)
			}
			cur = ""
		} else {
			cur += string(path[i])
		}
	}
	var out [][2]string
	for i, p := range pieces {
		if len(p) >= 2 && p[0] == '{' && p[len(p)-1] == '}' {
			out = append(out, [2]string{strings.Join(pieces[:i+1], "/"), p[1 : len(p)-1]})
		}
	}
	return out
}

func TestBoundedC13(t *testing.T) {
	n := 7
	if os.Getenv("GOVC_BOUND_TIER") == "thorough" {
		n = 9
	}
	r := &boundedReport{ID: "C13.pathParameters-spec", Prop: "C13", Exhaustive: true,
		Rule: fmt.Sprintf("every path over {/, {, }, a, b} up to length %d: pathParameters(p) never panics and equals the declarative split; PathParameters errs iff some name is empty or repeated; non-trivial = path with at least one '{'", n)}
	enumStrings([]byte{'/', '{', '}', 'a', 'b'}, n, func(p string) {
		r.Evals++
		if strings.Contains(p, "{") {
			r.Distinct++
		}
		func() {
			defer func() {
				if x := recover(); x != nil {
					r.bad(fmt.Sprintf("%q panics: %v", p, x))
				}
			}()
			got := pathParameters(p)
			want := specPathParameters(p)
			ok := len(got) == len(want)
			for i := 0; ok && i < len(got); i++ {
				ok = string(got[i].path) == want[i][0] && got[i].parameter == want[i][1]
			}
			if !ok {
				r.bad(fmt.Sprintf("%q: got %v want %v", p, got, want))
				return
			}
			_, err := PathParameters(p)
			empty, dup := false, false
			seen := map[string]bool{}
			for _, w := range want {
				if w[1] == "" {
					empty = true
				}
				if seen[w[1]] {
					dup = true
				}
				seen[w[1]] = true
			}
			if (err != nil) != (empty || dup) {
				r.bad(fmt.Sprintf("%q: PathParameters error=%v but empty=%v dup=%v", p, err, empty, dup))
				return
			}
			if len(r.Samples) < 5 && len(want) >= 2 {
				r.Samples = append(r.Samples, p)
			}
		}()
	})
	r.emit()
}

func TestBoundedC15(t *testing.T) {
	n := 6
	if os.Getenv("GOVC_BOUND_TIER") == "thorough" {
		n = 8
	}
	alphabet := []byte{'a', ' ', '\t', '\r', '\n', '(', ')'}
	idem := &boundedReport{ID: "C15.description-idempotent", Prop: "C15", Exhaustive: true,
		Rule: fmt.Sprintf("every text over {a, space, tab, CR, LF, (, )} up to length %d accepted by description(): description(description(t)) == description(t), and description leaves its argument's bytes unchanged (the body aliases the file content); non-trivial = text containing a line end or a parenthesis", n)}
	shape := &boundedReport{ID: "C15.description-shape", Prop: "C15", Exhaustive: true,
		Rule: fmt.Sprintf("same texts: the result has no CR, no leading line end, no trailing blank, and its lines share no common leading whitespace (unless a line is all-blank or the first line ends with blanks only)", n)}
	paren := &boundedReport{ID: "C15.description-parentheses", Prop: "C15", Exhaustive: true,
		Rule: fmt.Sprintf("every parenthesis-free text t over the alphabet up to length %d with a non-blank character: description(\"(\\n\"+t+\"\\n)\") == description(t)", n-0)}
	enumStrings(alphabet, n, func(s string) {
		idem.Evals++
		shape.Evals++
		nontrivial := strings.ContainsAny(s, "\r\n()")
		in := []byte(s)
		d1, err := description(in)
		// frame: the normaliser must not write into its argument (the body bytes alias the source file's content, which is
		// read again for every PASTE of the same directive)
		if string(in) != s {
			idem.bad(fmt.Sprintf("description(%q) modified its argument: now %q", s, string(in)))
			return
		}
		if err == nil {
			if nontrivial {
				idem.Distinct++
				shape.Distinct++
			}
			d2, err2 := description(append([]byte{}, d1...))
			if err2 != nil || !bytes.Equal(d1, d2) {
				idem.bad(fmt.Sprintf("%q -> %q -> %q (err %v)", s, d1, d2, err2))
			} else if len(idem.Samples) < 5 && nontrivial && len(s) >= 4 {
				idem.Samples = append(idem.Samples, fmt.Sprintf("%q -> %q", s, d1))
			}
			if bytes.ContainsRune(d1, '\r') || (len(d1) > 0 && (d1[0] == '\n' || strings.ContainsRune("\n\t \r", rune(d1[len(d1)-1])))) {
				shape.bad(fmt.Sprintf("%q -> %q", s, d1))
			} else if len(shape.Samples) < 5 && nontrivial && len(s) >= 4 {
				shape.Samples = append(shape.Samples, fmt.Sprintf("%q -> %q", s, d1))
			}
		}
		if !strings.ContainsAny(s, "()") && strings.Contains(s, "a") {
			paren.Evals++
			if strings.ContainsAny(s, "\r\n") {
				paren.Distinct++
			}
			p1, e1 := description([]byte("(\n" + s + "\n)"))
			if e1 != nil || err != nil || !bytes.Equal(p1, d1) {
				paren.bad(fmt.Sprintf("%q: bare %q (err %v), parenthesised %q (err %v)", s, d1, err, p1, e1))
			} else if len(paren.Samples) < 5 && len(s) >= 4 {
				paren.Samples = append(paren.Samples, fmt.Sprintf("%q -> %q", s, d1))
			}
		}
	})
	idem.emit()
	shape.emit()
	paren.emit()
}
