// Bounded decider for C17 (stand-in, never counted as proved): exhaustive execution of the REAL
// directive.unescapeParameter over a stated alphabet and length. Injected with `go test -overlay`.
package directive

import (
	"encoding/json"
	"fmt"
	"os"
	"regexp"
	"strings"
	"testing"
)

type boundedReport struct {
	ID         string   `json:"id"`
	Prop       string   `json:"prop"`
	Evals      int      `json:"evaluations"`
	Distinct   int      `json:"distinct_nontrivial"`
	Violations int      `json:"violations"`
	Rule       string   `json:"rule"`
	Samples    []string `json:"samples"`
	Witnesses  []string `json:"witnesses"`
	Exhaustive bool     `json:"exhaustive"`
	Known      int      `json:"known_finding_instances"`
	KnownEx    string   `json:"known_finding_example"`
}

// knownClass: violations matching the class regexp of a listed known finding (env GOVC_KNOWN_CLASSES, JSON id -> regexp)
// are counted separately; everything else is a new violation.
func knownClass(id string) *regexp.Regexp {
	var m map[string]string
	if json.Unmarshal([]byte(os.Getenv("GOVC_KNOWN_CLASSES")), &m) != nil || m[id] == "" {
		return nil
	}
	re, err := regexp.Compile(m[id])
	if err != nil {
		return nil
	}
	return re
}

func (r *boundedReport) emit() {
	b, _ := json.Marshal(r)
	fmt.Println("BOUNDED " + string(b))
}

func enumStrings(alphabet []byte, maxLen int, f func(s string)) {
	var rec func(prefix []byte)
	rec = func(prefix []byte) {
		f(string(prefix))
		if len(prefix) == maxLen {
			return
		}
		for _, c := range alphabet {
			rec(append(prefix, c))
		}
	}
	rec(make([]byte, 0, maxLen))
}

func quoteParam(x string) string {
	x = strings.ReplaceAll(x, `\`, `\\`)
	x = strings.ReplaceAll(x, `"`, `\"`)
	return `"` + x + `"`
}

func TestBoundedC17(t *testing.T) {
	n := 5
	if os.Getenv("GOVC_BOUND_TIER") == "thorough" {
		n = 6
	}
	alphabet := []byte{'\\', '"', 'a', ' ', '#', '/', '\t'}
	// (1) unescape(quote(x)) == x
	r1 := &boundedReport{ID: "C17.unescape-roundtrip", Prop: "C17", Exhaustive: true,
		Rule: fmt.Sprintf("every string x over {\\, \", a, space, #, /, tab} up to length %d: unescapeParameter('\"'+esc(x)+'\"') == x; non-trivial = x contains a backslash or a quote", n)}
	// (2) quote-free, backslash-free values mean the same bare
	r2 := &boundedReport{ID: "C17.bare-identity", Prop: "C17", Exhaustive: true,
		Rule: fmt.Sprintf("every quote-free x over the same alphabet up to length %d: unescapeParameter(x) == x; non-trivial = x non-empty", n)}
	enumStrings(alphabet, n, func(x string) {
		r1.Evals++
		if strings.ContainsAny(x, `\"`) {
			r1.Distinct++
		}
		got := string(unescapeParameter([]byte(quoteParam(x))))
		if got != x {
			r1.Violations++
			if len(r1.Witnesses) < 200 {
				r1.Witnesses = append(r1.Witnesses, x)
			}
		} else if len(r1.Samples) < 5 && strings.ContainsAny(x, `\"`) && len(x) >= 3 {
			r1.Samples = append(r1.Samples, x)
		}
		if !strings.Contains(x, `"`) {
			r2.Evals++
			if x != "" {
				r2.Distinct++
			}
			if string(unescapeParameter([]byte(x))) != x {
				r2.Violations++
				if len(r2.Witnesses) < 200 {
					r2.Witnesses = append(r2.Witnesses, x)
				}
			} else if len(r2.Samples) < 5 && len(x) >= 3 {
				r2.Samples = append(r2.Samples, x)
			}
		}
	})
	r1.emit()
	r2.emit()
}
