#!/usr/bin/env python3
"""Regenerates MANIFEST.json from the table below (kept as a script so that the manifest stays valid and consistent)."""
import json, subprocess
BASE_OFF = "cd /repo && go build ./... && go test -vet=off -count=1 -timeout 25m ./..."
claims = {
 # id: (level, text, note, technique, design_ref)
 "C01": ("proof",
         "No-panic obligations (nil dereference, index, slice bounds, explicit panic unreachable, type assertion, nil map) and loop/recursion variants for every function under contract, generated from go/ssa and discharged by SMT for all inputs; scanner stack discipline (Pop never on empty) is an inductive invariant over all 160 state functions. Scanner termination: the delegation of one byte between state functions decreases a call rank (function-type measure, checked at every static, hinted and popped-state call), and every iteration of the scan loop of Scanner.Next decreases 100*(bytes left)+rank(step), the two rewinds included.",
         "Functions outside the contract set and the schema library are not covered; termination only where a decreases clause exists (jerr loops, context walks, trace loops, the scanner); termination of the core's scan loops over Next and of the macro expansion is not machine-checked; see evidence.assumptions and unverified_functions.",
         "contract-based deductive verification: safety VCs from go/ssa discharged by z3/cvc5", "DESIGN.md 4.C01"),
 "C03": ("proof",
         "Partial claim, single-run reformulation (DESIGN 4.C03): (a) frame scan over the SSA of the whole repository: the only ranges over maps are in four named functions, each of which only collects the keys into a slice that is sorted with sort.Strings before use (shape checked on the SSA; a caller-supplied comparison is refused); no goroutine, select, time, math/rand or pointer-to-integer conversion in repository code; (b) package-level state is written only by initialisers and the declared sync.Once closure.",
         "Determinism of the schema library, of encoding/json and regexp is assumed; equality across processes and under concurrent parses is not claimed (see C16).",
         "contract-style frame scans over go/ssa (complete reader/writer/range lists declared in the contract files and checked on every run)", "DESIGN.md 4.C03"),
 "C06": ("proof",
         "processContext is proved against the property statement itself: on success the directive hangs under anc(k) for the least k whose kind admits it, with no explicit context crossed (or at top level when the chain is exhausted and the kind may stand there; or hoisted for a path-bearing HTTP method under a non-parenthesised URL); on error no such place exists; closeLastExplicitContext / HasUnclosedExplicitContext / processEOF / processContextEnd / processCurrentDirective / next are proved against the ancestor-chain specification; termination of the walks by a ghost depth (TreeWF).",
         "allowedCtx is the repository's parent/child table read as an uninterpreted relation (IsAllowedForDirectiveContext trusted to be a pure function of its arguments); ghost depth updates are ghost code at function exit; paste re-resolution (processDirective) not yet under contract.",
         "contract-based deductive verification: loop invariant over contract-local ancestor function, VCs from go/ssa discharged by z3/cvc5", "DESIGN.md 4.C06"),
 "C08": ("proof",
         "Partial claim. Proved: the include-name validator rejects absolute names, backslashes and any '/'-delimited '.' or '..' component other than the whole name (lemma over SMT strings, cvc5); os.Stat is only ever called on Join(Dir(current file), validated name) (ghost typestate lastStat/ioCount); Stack.Push refuses a file already on the include stack and leaves the stack unchanged; Pop/Push keep the stack invariant; a JSIGHT directive read while the include stack is not empty is rejected (processKeyword). Not claimed: 'moving directives into an included file changes nothing' (two runs).",
         "Assumed: strings.Contains/ContainsRune/filepath.Join/Dir/os.Stat/os.ReadFile contracts (deps.spec); filepath.Join(dir, '..') names a directory (file-system fact); Enumeration.String is a trusted pure function (kwText).",
         "contract-based deductive verification + SMT string lemma (cvc5)", "DESIGN.md 4.C08"),
 "C18": ("proof",
         "A banned kind is refused where its keyword is read (setCurrentDirective: root file, included file, macro body whether pasted or not), with the error at that keyword, nothing changed and no file access (defect F28 repaired: the check used to run only when the catalog was built); every directive that is created is of a kind that is not banned; the same conditional contract at the four later consumers addDirective, processInclude (ghost I/O counter unchanged), addMacro, processPasteDirective; the option function gives the core its own set: old set plus exactly the listed kinds, in a map no other core or option can reach; the banned set is read nowhere else (readers scan).",
         "unchanged() compares all heap arrays touched by the function on pre-existing objects; NewDirectiveType is trusted to be a pure function of the keyword text (dtOf); the 'option changes nothing else' two-run half is replaced by the readers/writers frame scans.",
         "contract-based deductive verification: conditional frame postconditions, VCs from go/ssa discharged by z3/cvc5", "DESIGN.md 4.C18"),
 "C09": ("proof",
         "Partial claim: representation invariant of every ordered collection (order has no duplicates, every ordered key is present, as many keys as entries) preserved by Set/SetToTop with whole-view postconditions; key texts: HTTP interaction ids are injective (lemma, SMT strings); AddTag/AddServer keep the invariant; ToJson/ToJsonIndent return exactly the bytes encoding/json produced (no post-processing); every response and every request of an accepted project has a body; findUserTypes accepts only declared user types; tagNames registers the interaction with every tag whose name it returns. Known finding: JSON-RPC ids are not injective.",
         "Assumed: fmt.Sprintf %s semantics for the two String() methods (trusted contracts); MarshalJSON emits one member per element of order (loop shape read, byte-level JSON is encoding/json's). UTF-8/JSON well-formedness and compact == indented are not claimed.",
         "contract-based deductive verification + SMT string lemmas", "DESIGN.md 4.C09"),
 "C11": ("proof",
         "Partial claim: local rejection contracts, each of the shape 'condition on the pre-state implies an error and every heap location unchanged': duplicate tag / server / macro / user enum / user type, second JSIGHT / INFO / Title / Version / Description-of-info, macro without name or without body, PASTE of an undefined macro; every successful PASTE collects the ENUM rules of the pasted macro again (ghost call counter), so an enum declared twice through PASTE reaches the duplicate check; the same HTTP method on the same path / the same JSON-RPC method twice (AddHTTPMethod, AddJsonRpcMethod), a second Body under one response (AddResponseBody, defect F18 repaired), a PASTE without Name inside a macro body (findPaste); the same URL path twice (addURL: registered path => error, accepted URL registers its path, table insert-only) and two paths that differ only in a parameter name (checkSimilarPaths against the prefix table); a second Query, request Headers, response Headers, Protocol, JSON-RPC Params or Result; BaseUrl for an unknown server or a second BaseUrl; an allOf base that is undefined or not an object.",
         "The remaining adders of setters.go / build_catalog_directives.go (interactions, types, enums, paths) are not yet under contract; 'one injected fault always causes rejection' end-to-end is not claimed.",
         "contract-based deductive verification: conditional frame postconditions (unchanged())", "DESIGN.md 4.C11"),
 "C07": ("proof",
         "Partial claim: addMacro rejects a macro without name, without body, or with a duplicate name and leaves the macro table unchanged; after collectMacro no top-level directive is a MACRO (a macro that is never pasted never reaches the catalog build); processPasteDirective rejects an undefined macro; the replay pass never changes the parent of a pre-existing directive; discipline of the macro cycle search (each search starts from an empty visited set, the target is never marked, the set only grows). Mutual recursion of macros (a crash before) is repaired by a fix: commit; completeness of the depth-first search and termination are not machine-checked.",
         "Not claimed: 'paste == inlining', 'unused macro contributes nothing' (two runs); termination of the macro expansion (the cycle check is a graph search that is not under a functional contract).",
         "contract-based deductive verification", "DESIGN.md 4.C07"),
 "C13": ("proof",
         "Proof (binding): for every HTTP interaction the binding step BuildResourceMethodsPathVariables$1 lists exactly those {name} segments of its path for which a property is declared at that prefix, in path order, each with the declared schema object (cnt-indexed filter specification over the path parameters; newPathVariables keeps number and order); an interaction without declared parameters keeps none; the prefix table is insert-only and a prefix found in it is an error (a parameter declared twice for one prefix is rejected), unmatched declared properties leave the list in one place only; a user type named as the type of a Path property is accepted only if it is a scalar JSight type or a regex. BOUNDED stand-in (labelled in evidence.coverage.bounded): the real pathParameters/PathParameters are executed on every path over {/, {, }, a, b} up to length 7 (thorough: 9) and compared with the declarative split; no panic, empty/repeated names rejected.",
         "Assumed: pathParameters is a pure function of the path text (its split semantics is the bounded part); Interaction.Path() is a pure function of the interaction; collectUsedUserTypes only adds to the given set (trusted frame). Not claimed: the rejection rules of the first half of BuildResourceMethodsPathVariables (duplicate declaration, unused property) and the property names written into the shared schema nodes.",
         "contract-based deductive verification (loop invariant over a contract-local counting function) + bounded exhaustive execution for the path split", "DESIGN.md 4.C13"),
 "C15": ("proof",
         "Proof: addDescription accepts a description only if the normalised text is non-empty (blank descriptions are rejected in either spelling; the normaliser is an assumed pure function there). BOUNDED stand-in (labelled in evidence.coverage.bounded): the real core.description and catalog.Annotation are executed on every text over a 7-symbol alphabet (Annotation: 6 symbols including a two-byte letter) up to length 6 (thorough: 8): idempotence, shape of the result, bare == parenthesised, the argument's bytes are left unchanged, Annotation normal form with the non-blank bytes kept in order.",
         "Bounded by alphabet and length; one known finding class (idempotence when the result is itself parenthesised).",
         "bounded exhaustive execution of the real functions against an executable contract", "DESIGN.md 4.C15"),
 "C16": ("proof",
         "Partial claim: lock-permission discipline of every generated ordered map, StringSet and RulesBuilder (every access to data/order requires the mutex held, write-held for stores; every method releases it: removing or weakening one Lock/Unlock fails a named obligation), sequential view contracts (whole-view postconditions of Set/SetToTop/Has/Get/GetValue/Len), a scan that every method of a mutex-guarded type has at most one lock acquisition site (no check-then-act over two critical sections), and a frame scan: package-level variables are written only by initialisers and the declared sync.Once body.",
         "Assumed: sync.RWMutex gives mutual exclusion; *regexp.Regexp is safe for concurrent use. Not claimed: data-race freedom of whole parses and equality of concurrent vs solo results (schedules); the callback-taking methods (Each, EachReverse, EachSafe, Find, Map, Update) are verified under the assumption that the callback leaves the collection's own fields alone (oncallback keeps): the callback runs with the lock held and the lock is released on every path.",
         "contract-based deductive verification (mutex as permission ghost state) + SSA frame scan of global stores", "DESIGN.md 4.C16"),
 "C17": ("proof",
         "Proof: safety and frame of directive.unescapeParameter (single pass), quoted-parameter scanner states under the step-function contract; the scanner's look-ahead helpers classify a parameter through its UNQUOTED value only (brackets trimmed after unquoting), so a quoted parameter selects the same body state as the bare one. BOUNDED stand-in: unescape(quote(x)) == x and unescape(x) == x for quote-free x, for every x over {\\, \", a, space, #, /, tab} up to length 5 (thorough: 6) on the real function.",
         "Round trip is bounded (labelled so in evidence.coverage.bounded); the scanner/normaliser agreement end-to-end is not claimed.",
         "contract-based deductive verification + bounded exhaustive execution for the round trip", "DESIGN.md 4.C17"),
 "C19": ("proof",
         "Proof: a declared tag's title is its annotation or, lacking one, its name (AddTag, collectTag, NewTag); a path tag reuses the tag already registered under its name; precedence of explicit Tags over the URL's Tags over the automatic path tag (setters under contract). BOUNDED stand-in (labelled in evidence.coverage.bounded): tagName(pathTagTitle(p)) decodes back to the title under the inverse written in the test (the specification of tagName: '@' = the leading '/', '__' = '_', '_XY' = the byte XY), hence is injective, on first path segments over a 10-symbol alphabet up to length 4 (thorough: 5); later segments do not influence the title.",
         "Bounded by alphabet and length for the automatic-name injectivity.",
         "contract-based deductive verification + bounded exhaustive execution for the name injectivity", "DESIGN.md 4.C19"),
 "C14": ("proof",
         "Scanner invariant (stack, event queue, ghost lexeme typestate) proved inductive over all state functions and Scanner.Next; emitted lexemes have begin <= end+1, end inside the input, events paired; keyword lexemes spell a directive word (spell tables checked per transition); schema/enum body length is the library's (assumed) length; at the end of input every state either reports an error or leaves no lexeme open (defect F25 repaired), stateParameterStart never runs on the end marker; nothing but trivia is skipped: for every state, a byte outside comments and lexemes that is not blank, line end, '#' or the end marker is rejected, or the first event emitted is a Begin/Single event at that byte, or it is an annotation delimiter, or the scanner steps back; events already emitted are never retracted.",
         "Assumes the schema library's Len()/Position() bounds (deps.spec); ghost-state definitions of found/foundAt; strict ordering across lexemes is proved at emission (typestate of found/foundAt), not re-proved for the FIFO queue.",
         "contract-based deductive verification: inductive invariant of the scanner state machine as function-type contract, VCs from go/ssa discharged by z3/cvc5", "DESIGN.md 4.C14"),
 "C05": ("proof",
         "Partial claim, per-state components only. (a) Two-run lemma for each of the 160 scanner state functions and each of the byte pairs LF/CR and space/tab: two runs from the same scanner state that differ only in the byte under the cursor end in the same state (step, return stack, event queue, cursor, open-lexeme typestate) and agree on error / no error - a product VC of the real function with itself, calls abstracted relationally. (b) Comments: startComment saves the interrupted state; after '#', every byte up to the line end is ignored and nothing but s.step changes, so the saved state is the one that sees the line end (this caught defect F16, repaired by a fix: commit); exact transitions of the block-comment sub-machine (### ... ###, the opener's signs are not part of the text, closing pops the saved state). (c) IsStartWithDirective (end of a free text) depends on the line only through 'begins with a response code or a keyword text' - what follows the keyword (blank, tab, CR, LF) plays no part. (d) Quoting: the look-ahead helpers classify a parameter through its unquoted value.",
         "NOT claimed: equality of verdict and catalog of two whole documents under the listed rewritings (comments and blank lines between directives, re-indentation, CRLF, quoting, explicit parentheses) - that relates two complete runs and is outside contracts; the lemmas are necessary conditions for it. Assumed: callees are deterministic functions of their arguments and of the listed receiver fields (the lemma itself for step-function callees; an assumption for helpers).",
         "contract-based deductive verification: two-run (product) VCs of each state function + one-run postconditions, go/ssa, z3/cvc5", "DESIGN.md 4.C05"),
 "C02": ("proof",
         "Contracts on jerr (line/quote arithmetic against a counting specification with the file's own line-end byte, location construction, include-trace append: innermost first, one entry per stack element) discharged for all inputs by SMT with wrap-around machine arithmetic; every error constructor under contract yields an index inside the file it names; an error built from a directive carries that directive's include chain and is located at its own keyword or in its own body (makeError precondition + callers scan); jerr.NewJApiError is called only by the six declared constructors (callers scan); scanProject attaches the chain on every error path, and drainCurrentScanner / isScanningFinished (checked, not trusted) keep the include stack well formed on every path; no directive is pending when an included file is entered. Known finding F7 (include-tracer cache keyed by file only).",
         "Trusted: go/ssa translation, govc VC generator, SMT solvers; assumed contracts listed in evidence.assumptions.",
         "contract-based deductive verification: go/ssa weakest-precondition style VCs discharged by z3/cvc5", "DESIGN.md 4.C02"),
}
na = {
 "C04": "whole-pipeline functional equivalence with an abstract API model; no contract short of a specification of the entire compiler plus the external schema library's ASTs can state it",
 "C10": "a relation between n! whole runs on permuted documents (hyper-property); contracts decide single calls",
 "C12": "final property order is produced by recursive in-place mutation of aliased schema nodes built by the external library; outside the heap subset of the self-written VC generator (local rejection checks are under C11, safety under C01)",
 "C20": "compares the catalogs of two different documents (two whole runs); not a property of any single call",
}
pending = {}
for i in range(1, 21):
    pid = "C%02d" % i
    if pid not in claims and pid not in na:
        pending[pid] = "not claimed in this commit: contracts for this property are still under construction (see DESIGN.md section 0)"
try:
    commits = subprocess.check_output(["git", "-C", "/repo", "log", "--format=%H %s", "755e108..HEAD"], text=True).strip().splitlines()
except Exception:
    commits = []
hook_commits = [c.split()[0] for c in commits if not c.split(" ", 1)[1].startswith("fix:")]
m = {
 "version": 1,
 "setup_cmd": ". ./env.sh && mkdir -p bin && cd govc && go build -o ../bin/govc .",
 "hooks": {
   "guard": "verif",
   "enable": "go build -tags verif (contracts are comment-only files <pkg>/contracts_verif.go with //go:build verif; govc loads /repo with -tags=verif)",
   "baseline_off_cmd": BASE_OFF,
   "source_commits": hook_commits,
   "add_only": True,
 },
 "engines": [{"name": "govc", "path": "govc/", "serves_properties": sorted(claims), "kind_free_text": "contract verifier: go/ssa (naive form) -> SMT-LIB VCs -> z3 5.1 / cvc5 1.0 / z3 4.8"}],
 "checks": [],
 "notes": "All checks rebuild VCs from /repo's working tree on every run. Known findings: known_findings.txt. Design: DESIGN.md.",
 "not_applicable": [{"property_id": k, "reason": v} for k, v in sorted({**na, **pending}.items())],
}
for pid, (level, text, note, tech, ref) in sorted(claims.items()):
    m["checks"].append({
        "property_id": pid,
        "quick_cmd": "./check %s quick" % pid,
        "thorough_cmd": "./check %s thorough" % pid,
        "evidence_file": "evidence/%s.json" % pid,
        "replay_cmd_template": "./check %s --replay {path}" % pid,
        "engine": "govc",
        "level_claimed": {"category": level, "text": text, "design_ref": ref},
        "level_note": note,
        "technique": tech,
    })
json.dump(m, open("MANIFEST.json", "w"), indent=1)
print("MANIFEST.json written:", len(m["checks"]), "checks,", len(m["not_applicable"]), "not applicable")
