#!/bin/bash
# usage: keep_seed.sh <seed-dir> <id> <prop> "<detected-by / status>"
S=$1; ID=$2; PROP=$3; STATUS=$4
D=/verif/seeded/$ID; mkdir -p $D
cp $S/patch.diff $D/patch.diff; cp $S/demo_test.go $D/demo_test.go
python3 - "$S/meta.json" "$D/meta.json" "$PROP" "$STATUS" <<'PY'
import json,sys
m=json.load(open(sys.argv[1]))
m['property']=sys.argv[3]
m['confirmed_by']='selftest/confirm_seed.sh: patch applies to /repo HEAD in a scratch worktree, library builds, existing suite passes, demonstration fails with the patch and passes without it'
m['check_result']=sys.argv[4]
m['how_to_run']='selftest/try_seed.sh seeded/<id>/patch.diff '+sys.argv[3]
json.dump(m,open(sys.argv[2],'w'),indent=1)
PY
echo kept $D
