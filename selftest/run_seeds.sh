#!/bin/bash
# Runs every kept seeded change against the check of its property; prints one line per seed.
cd /verif
for d in seeded/*/; do
  id=$(basename $d); prop=$(python3 -c "import json;print(json.load(open('$d/meta.json'))['property'])")
  cd /repo && git diff --quiet || { echo "/repo not clean"; exit 2; }
  if ! git apply $OLDPWD/$d/patch.diff 2>/dev/null; then echo "$id $prop PATCH-DOES-NOT-APPLY"; cd /verif; continue; fi
  cd /verif
  ./check $prop quick > /tmp/seedrun_$id.log 2>&1; rc=$?
  git -C /repo checkout -- . ; git -C /repo clean -fdq -- . 2>/dev/null
  first=$(grep -m1 "^VIOLATION" /tmp/seedrun_$id.log | sed 's/.*replay=[^ ]*\/\([^ ]*\)\.json.*/\1/' | cut -c1-90)
  echo "$id $prop exit=$rc $first"
done
