#!/bin/bash
# usage: run_mutant.sh <patch-file> <fn-regex> [govc verify args]  -- applies a patch to a scratch copy of /repo and runs govc on it
set -e
P=$(readlink -f "$1"); FN="$2"; shift 2
D=$(mktemp -d /tmp/govc-mut-XXXX)
trap 'rm -rf "$D"' EXIT
rsync -a --exclude .git --exclude testdata --exclude docs --exclude img /repo/ "$D/"
(cd "$D" && patch -p1 -s < "$P")
(cd "$D" && . /verif/env.sh && go build ./... ) || { echo "MUTANT-DOES-NOT-COMPILE"; exit 3; }
GOVC_REPO="$D" /verif/bin/govc verify -fn "$FN" "$@" 2>&1 | sed "s#$D#/repo#g" | grep -v " OK " | cut -c1-200
