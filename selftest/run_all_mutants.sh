#!/bin/bash
# Applies every hand-written must-fail patch to a scratch copy of /repo and runs govc on the functions the patch touches
# (all contracted functions of the touched packages). Prints DETECTED / MISSED / NOAPPLY per patch.
cd /verif
for p in selftest/mutants/*.patch; do
  D=$(mktemp -d /tmp/govc-mut-XXXX)
  rsync -a --exclude .git --exclude testdata --exclude docs --exclude img /repo/ "$D/"
  if ! (cd "$D" && patch -p1 -s --dry-run < "/verif/$p" >/dev/null 2>&1); then echo "NOAPPLY  $(basename $p)"; rm -rf "$D"; continue; fi
  (cd "$D" && patch -p1 -s < "/verif/$p")
  if ! (cd "$D" && . /verif/env.sh >/dev/null 2>&1 && go build ./... >/dev/null 2>&1); then echo "NOBUILD  $(basename $p)"; rm -rf "$D"; continue; fi
  pk=$(grep '^+++ ' "$p" | sed 's#+++ b/##' | cut -d/ -f1 | sort -u | paste -sd'|')
  out=$(GOVC_REPO="$D" bin/govc verify -t 4000 -solvers z3new,cvc5 -fn "^\(?\*?($pk)\." 2>&1; GOVC_REPO="$D" bin/govc pair -t 3000 -solvers z3new 2>&1 | grep -E "FAIL|SPEC ERROR")
  if echo "$out" | grep -qE " FAIL |SPEC ERROR"; then echo "DETECTED $(basename $p)"; else echo "MISSED   $(basename $p)"; fi
  rm -rf "$D"
done
