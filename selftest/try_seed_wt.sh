#!/bin/bash
# usage: try_seed_wt.sh <patch.diff> <prop> [more props]  -- like try_seed.sh but in a scratch worktree of /repo's HEAD (GOVC_REPO)
P=$(readlink -f "$1"); shift
cd "$(dirname "$0")/.."; . ./env.sh
W=$(mktemp -d /tmp/trywt-XXXX); rmdir $W
git -C /repo worktree add -q --detach $W HEAD || exit 2
trap 'git -C /repo worktree remove --force $W >/dev/null 2>&1; rm -rf $W' EXIT
git -C $W apply "$P" || { echo "PATCH-DOES-NOT-APPLY"; exit 2; }
for prop in "$@"; do
  GOVC_REPO=$W ./check $prop quick > /tmp/trywt_$prop.$$.log 2>&1; rc=$?
  echo "== $prop exit=$rc"; grep -E "^VIOLATION|^KNOWN|^CHECK-BROKEN|obligations claimed" /tmp/trywt_$prop.$$.log | sed 's/replay=[^ ]* //' | cut -c1-230 | head -5
  rm -f /tmp/trywt_$prop.$$.log
done
