#!/bin/bash
# usage: confirm_seed.sh <seed-dir>   (dir with patch.diff, demo_test.go, meta.json)
# Confirms in a scratch worktree: (1) with the patch the library builds and the existing suite passes,
# (2) the demonstration fails with the patch, (3) passes without it. Prints CONFIRMED or the failing step.
S=$(readlink -f "$1"); . /verif/env.sh
W=$(mktemp -d /tmp/seedwt-XXXX); rmdir $W
git -C /repo worktree add -q --detach $W HEAD || exit 2
trap 'git -C /repo worktree remove --force $W >/dev/null 2>&1; rm -rf $W' EXIT
PKG=$(head -3 $S/demo_test.go | grep -o "copy to: *[a-z/]*" | sed 's/copy to: *//')
TESTS=$(grep -o "^func Test[A-Za-z0-9_]*" $S/demo_test.go | sed 's/func //' | paste -sd'|')
[ -z "$PKG" ] && { echo "NO-COPY-TO-LINE"; exit 2; }
cd $W
cp $S/demo_test.go $W/$PKG/zz_seed_demo_test.go
if ! go test -vet=off -count=1 ./$PKG/ -run "^($TESTS)\$" >/tmp/seed_clean.log 2>&1; then echo "DEMO-FAILS-ON-CLEAN-TREE"; tail -5 /tmp/seed_clean.log; exit 1; fi
rm $W/$PKG/zz_seed_demo_test.go
git apply $S/patch.diff || { echo "PATCH-DOES-NOT-APPLY"; exit 1; }
go build ./... || { echo "DOES-NOT-BUILD"; exit 1; }
if ! go test -vet=off -count=1 ./... >/tmp/seed_suite.log 2>&1; then echo "SUITE-FAILS-WITH-PATCH"; grep -v "^ok\|no test files" /tmp/seed_suite.log | tail -5; exit 1; fi
cp $S/demo_test.go $W/$PKG/zz_seed_demo_test.go
if go test -vet=off -count=1 ./$PKG/ -run "^($TESTS)\$" >/tmp/seed_mut.log 2>&1; then echo "DEMO-PASSES-WITH-PATCH"; exit 1; fi
echo CONFIRMED
