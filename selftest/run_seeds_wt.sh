#!/bin/bash
# Like run_seeds.sh, but in a scratch worktree of /repo's HEAD (GOVC_REPO), so that /repo itself is left alone and the
# run can go on in the background (vp run). Prints one line per seed. usage: run_seeds_wt.sh [id-regex]
cd "$(dirname "$0")/.."
. ./env.sh
[ -x bin/govc ] || (mkdir -p bin && cd govc && go build -o ../bin/govc .)
W=$(mktemp -d /tmp/seedswt-XXXX); rmdir $W
git -C /repo worktree add -q --detach $W HEAD || exit 2
trap 'git -C /repo worktree remove --force $W >/dev/null 2>&1; rm -rf $W' EXIT
for d in seeded/*/; do
  id=$(basename $d); [ -n "$1" ] && ! echo "$id" | grep -qE "$1" && continue
  prop=$(python3 -c "import json;print(json.load(open('$d/meta.json'))['property'])")
  if ! git -C $W apply $PWD/$d/patch.diff 2>/dev/null; then echo "$id $prop PATCH-DOES-NOT-APPLY"; continue; fi
  GOVC_REPO=$W ./check $prop quick > /tmp/seedrunwt_$id.log 2>&1; rc=$?
  git -C $W checkout -q -- . ; git -C $W clean -fdq
  first=$(grep -m1 "^VIOLATION" /tmp/seedrunwt_$id.log | sed 's/.*obligation="\([^"]*\)".*/\1/' | cut -c1-110)
  echo "$id $prop exit=$rc $first"
done
