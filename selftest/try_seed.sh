#!/bin/bash
# usage: try_seed.sh <patch.diff> <prop> [more props]  -- applies the patch to /repo, runs the checks, reverts
P=$(readlink -f "$1"); shift
cd /repo && git diff --quiet || { echo "/repo not clean"; exit 2; }
git apply "$P" || { echo "PATCH-DOES-NOT-APPLY"; exit 2; }
trap 'git -C /repo checkout -- . ' EXIT
cd /verif
for prop in "$@"; do
  ./check $prop quick > /tmp/try_$prop.log 2>&1; rc=$?
  echo "== $prop exit=$rc"; grep -E "^VIOLATION|^KNOWN|^CHECK-BROKEN|obligations claimed" /tmp/try_$prop.log | cut -c1-260 | head -6
done
